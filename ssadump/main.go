// ssadump: front end of gocv. Loads /repo (tags: verif) with go/packages, builds
// go/ssa and serialises typed SSA, type descriptors, method sets and loop
// statement positions as JSON on stdout. Nothing is transcribed by hand: the
// Python engine only ever sees what this program extracts from the working tree.
package main

import (
	"encoding/json"
	"fmt"
	"go/ast"
	"go/constant"
	"go/token"
	"go/types"
	"os"
	"sort"
	"strings"

	"golang.org/x/tools/go/packages"
	"golang.org/x/tools/go/ssa"
	"golang.org/x/tools/go/ssa/ssautil"
)

type J = map[string]interface{}

var (
	typeTab = map[string]J{}
	sizes   = types.SizesFor("gc", "amd64")
	prog    *ssa.Program
)

func qual(p *types.Package) string { return p.Path() }

func tstr(t types.Type) string { return types.TypeString(t, qual) }

// regType registers a descriptor for t and returns its string key.
func regType(t types.Type) string {
	if t == nil {
		return ""
	}
	key := tstr(t)
	if _, ok := typeTab[key]; ok {
		return key
	}
	d := J{}
	typeTab[key] = d
	switch x := t.(type) {
	case *types.Named:
		d["kind"] = "named"
		d["underlying"] = regType(x.Underlying())
		if x.Obj() != nil && x.Obj().Pkg() != nil {
			d["pkg"] = x.Obj().Pkg().Path()
		}
		d["name"] = x.Obj().Name()
	case *types.Alias:
		d["kind"] = "named"
		d["underlying"] = regType(types.Unalias(x).Underlying())
		d["name"] = x.Obj().Name()
	case *types.Basic:
		d["kind"] = "basic"
		d["name"] = x.Name()
		info := x.Info()
		switch {
		case info&types.IsBoolean != 0:
			d["class"] = "bool"
		case info&types.IsString != 0:
			d["class"] = "string"
		case info&types.IsInteger != 0:
			d["class"] = "int"
			d["signed"] = info&types.IsUnsigned == 0
			if x.Kind() == types.UntypedInt || x.Kind() == types.UntypedRune {
				d["bits"] = 64
			} else {
				d["bits"] = int(sizes.Sizeof(x)) * 8
			}
		case info&types.IsFloat != 0:
			d["class"] = "float"
		case x.Kind() == types.UnsafePointer:
			d["class"] = "unsafeptr"
		case x.Kind() == types.UntypedNil:
			d["class"] = "nil"
		default:
			d["class"] = "other"
		}
	case *types.Pointer:
		d["kind"] = "pointer"
		d["elem"] = regType(x.Elem())
	case *types.Slice:
		d["kind"] = "slice"
		d["elem"] = regType(x.Elem())
	case *types.Array:
		d["kind"] = "array"
		d["elem"] = regType(x.Elem())
		d["len"] = x.Len()
	case *types.Struct:
		d["kind"] = "struct"
		fs := []J{}
		var vars []*types.Var
		for i := 0; i < x.NumFields(); i++ {
			vars = append(vars, x.Field(i))
		}
		var offs []int64
		func() {
			defer func() { recover() }()
			offs = sizes.Offsetsof(vars)
		}()
		for i := 0; i < x.NumFields(); i++ {
			f := x.Field(i)
			fj := J{"name": f.Name(), "type": regType(f.Type()), "embedded": f.Embedded()}
			if offs != nil {
				fj["offset"] = offs[i]
			}
			fs = append(fs, fj)
		}
		d["fields"] = fs
	case *types.Interface:
		d["kind"] = "interface"
		ms := []string{}
		for i := 0; i < x.NumMethods(); i++ {
			ms = append(ms, x.Method(i).Name())
		}
		d["methods"] = ms
	case *types.Signature:
		d["kind"] = "func"
		ps, rs := []string{}, []string{}
		for i := 0; i < x.Params().Len(); i++ {
			ps = append(ps, regType(x.Params().At(i).Type()))
		}
		for i := 0; i < x.Results().Len(); i++ {
			rs = append(rs, regType(x.Results().At(i).Type()))
		}
		d["params"], d["results"], d["variadic"] = ps, rs, x.Variadic()
	case *types.Chan:
		d["kind"] = "chan"
		d["elem"] = regType(x.Elem())
	case *types.Map:
		d["kind"] = "map"
		d["key"], d["elem"] = regType(x.Key()), regType(x.Elem())
	case *types.Tuple:
		d["kind"] = "tuple"
		es := []string{}
		for i := 0; i < x.Len(); i++ {
			es = append(es, regType(x.At(i).Type()))
		}
		d["elems"] = es
	default:
		d["kind"] = "other"
	}
	return key
}

func operand(v ssa.Value) J {
	if v == nil {
		return nil
	}
	o := J{"type": regType(v.Type())}
	switch x := v.(type) {
	case *ssa.Const:
		o["k"] = "const"
		if x.Value == nil {
			o["val"] = nil
		} else {
			switch x.Value.Kind() {
			case constant.Int:
				o["val"] = x.Value.ExactString()
			case constant.Bool:
				o["val"] = constant.BoolVal(x.Value)
			case constant.String:
				o["val"] = constant.StringVal(x.Value)
			default:
				o["val"] = x.Value.ExactString()
			}
		}
	case *ssa.Parameter:
		o["k"], o["name"] = "param", x.Name()
	case *ssa.FreeVar:
		o["k"], o["name"] = "freevar", x.Name()
	case *ssa.Global:
		o["k"], o["name"] = "global", x.String()
		o["elem"] = regType(x.Type().(*types.Pointer).Elem())
	case *ssa.Function:
		o["k"], o["name"] = "func", x.String()
	case *ssa.Builtin:
		o["k"], o["name"] = "builtin", x.Name()
	default:
		o["k"], o["name"] = "reg", v.Name()
	}
	return o
}

func ops(vs []ssa.Value) []J {
	r := []J{}
	for _, v := range vs {
		r = append(r, operand(v))
	}
	return r
}

func pos(p token.Pos) string {
	if !p.IsValid() {
		return ""
	}
	ps := prog.Fset.Position(p)
	fn := ps.Filename
	if i := strings.LastIndex(fn, "/repo/"); i >= 0 {
		fn = fn[i+6:]
	}
	return fmt.Sprintf("%s:%d", fn, ps.Line)
}

// loopStmts lists the positions ("line") of for/range statements and labels
// that are goto targets inside the syntax of f, in source order.
func loopStmts(f *ssa.Function) []int {
	out := []int{}
	syn := f.Syntax()
	if syn == nil {
		return out
	}
	var body *ast.BlockStmt
	switch s := syn.(type) {
	case *ast.FuncDecl:
		body = s.Body
	case *ast.FuncLit:
		body = s.Body
	}
	if body == nil {
		return out
	}
	ast.Inspect(body, func(n ast.Node) bool {
		switch s := n.(type) {
		case *ast.FuncLit:
			return false
		case *ast.ForStmt:
			out = append(out, prog.Fset.Position(s.Pos()).Line)
		case *ast.RangeStmt:
			out = append(out, prog.Fset.Position(s.Pos()).Line)
		}
		return true
	})
	return out
}

func dumpFn(f *ssa.Function) J {
	fj := J{"name": f.String(), "pos": pos(f.Pos()), "synthetic": f.Synthetic}
	ps := []J{}
	for _, p := range f.Params {
		ps = append(ps, J{"name": p.Name(), "type": regType(p.Type())})
	}
	fj["params"] = ps
	fv := []J{}
	for _, p := range f.FreeVars {
		fv = append(fv, J{"name": p.Name(), "type": regType(p.Type())})
	}
	fj["freevars"] = fv
	rs := []J{}
	res := f.Signature.Results()
	for i := 0; i < res.Len(); i++ {
		rs = append(rs, J{"name": res.At(i).Name(), "type": regType(res.At(i).Type())})
	}
	fj["results"] = rs
	if f.Signature.Recv() != nil {
		fj["recv"] = regType(f.Signature.Recv().Type())
	}
	if f.Parent() != nil {
		fj["parent"] = f.Parent().String()
	}
	fj["loopstmts"] = loopStmts(f)
	fj["hasrecover"] = f.Recover != nil
	blocks := []J{}
	for _, b := range f.Blocks {
		bj := J{"index": b.Index, "comment": b.Comment}
		preds, succs := []int{}, []int{}
		for _, p := range b.Preds {
			preds = append(preds, p.Index)
		}
		for _, s := range b.Succs {
			succs = append(succs, s.Index)
		}
		bj["preds"], bj["succs"] = preds, succs
		ins := []J{}
		for _, in := range b.Instrs {
			if dr, ok := in.(*ssa.DebugRef); ok {
				if id, ok := dr.Expr.(*ast.Ident); ok {
					ins = append(ins, J{"op": "DebugRef", "var": id.Name, "x": operand(dr.X), "isaddr": dr.IsAddr, "pos": pos(dr.Pos())})
				}
				continue
			}
			ij := J{"op": strings.TrimPrefix(fmt.Sprintf("%T", in), "*ssa."), "pos": pos(in.Pos())}
			if v, ok := in.(ssa.Value); ok {
				ij["name"], ij["type"] = v.Name(), regType(v.Type())
			}
			switch x := in.(type) {
			case *ssa.FieldAddr:
				pt := x.X.Type().Underlying().(*types.Pointer).Elem()
				st := pt.Underlying().(*types.Struct)
				ij["x"], ij["field"], ij["struct"], ij["fieldidx"] = operand(x.X), st.Field(x.Field).Name(), regType(pt), x.Field
				ij["ftype"] = regType(st.Field(x.Field).Type())
			case *ssa.Field:
				st := x.X.Type().Underlying().(*types.Struct)
				ij["x"], ij["field"], ij["struct"], ij["fieldidx"] = operand(x.X), st.Field(x.Field).Name(), regType(x.X.Type()), x.Field
			case *ssa.IndexAddr:
				ij["x"], ij["index"] = operand(x.X), operand(x.Index)
			case *ssa.Index:
				ij["x"], ij["index"] = operand(x.X), operand(x.Index)
			case *ssa.Lookup:
				ij["x"], ij["index"], ij["commaok"] = operand(x.X), operand(x.Index), x.CommaOk
			case *ssa.UnOp:
				ij["unop"], ij["x"], ij["commaok"] = x.Op.String(), operand(x.X), x.CommaOk
			case *ssa.BinOp:
				ij["binop"], ij["x"], ij["y"] = x.Op.String(), operand(x.X), operand(x.Y)
			case *ssa.Store:
				ij["addr"], ij["val"] = operand(x.Addr), operand(x.Val)
			case *ssa.If:
				ij["cond"] = operand(x.Cond)
			case *ssa.Return:
				ij["results"] = ops(x.Results)
			case *ssa.Phi:
				ij["edges"], ij["comment"] = ops(x.Edges), x.Comment
			case *ssa.Slice:
				ij["x"], ij["low"], ij["high"], ij["max"] = operand(x.X), operand(x.Low), operand(x.High), operand(x.Max)
			case *ssa.Extract:
				ij["tuple"], ij["index"] = operand(x.Tuple), x.Index
			case *ssa.Alloc:
				ij["heap"], ij["comment"] = x.Heap, x.Comment
				ij["elem"] = regType(x.Type().(*types.Pointer).Elem())
			case *ssa.MakeInterface:
				ij["x"] = operand(x.X)
			case *ssa.ChangeInterface:
				ij["x"] = operand(x.X)
			case *ssa.ChangeType:
				ij["x"] = operand(x.X)
			case *ssa.Convert:
				ij["x"] = operand(x.X)
			case *ssa.SliceToArrayPointer:
				ij["x"] = operand(x.X)
			case *ssa.TypeAssert:
				ij["x"], ij["asserted"], ij["commaok"] = operand(x.X), regType(x.AssertedType), x.CommaOk
			case *ssa.MakeClosure:
				ij["fn"], ij["bindings"] = operand(x.Fn), ops(x.Bindings)
			case *ssa.MakeSlice:
				ij["len"], ij["cap"] = operand(x.Len), operand(x.Cap)
			case *ssa.MakeChan:
				ij["size"] = operand(x.Size)
			case *ssa.MakeMap:
				ij["reserve"] = operand(x.Reserve)
			case *ssa.MapUpdate:
				ij["map"], ij["key"], ij["val"] = operand(x.Map), operand(x.Key), operand(x.Value)
			case *ssa.Range:
				ij["x"] = operand(x.X)
			case *ssa.Next:
				ij["iter"], ij["isstring"] = operand(x.Iter), x.IsString
			case *ssa.Send:
				ij["chan"], ij["val"] = operand(x.Chan), operand(x.X)
			case *ssa.Panic:
				ij["x"] = operand(x.X)
			case *ssa.Select:
				sts := []J{}
				for _, s := range x.States {
					sts = append(sts, J{"dir": int(s.Dir), "chan": operand(s.Chan), "send": operand(s.Send)})
				}
				ij["states"], ij["blocking"] = sts, x.Blocking
			case ssa.CallInstruction:
				c := x.Common()
				ij["args"] = ops(c.Args)
				if c.IsInvoke() {
					ij["invoke"], ij["recv"] = c.Method.Name(), operand(c.Value)
					ij["iface"] = regType(c.Value.Type())
				} else {
					ij["callee"] = operand(c.Value)
				}
				ij["sig"] = regType(c.Signature())
			}
			ins = append(ins, ij)
		}
		bj["instrs"] = ins
		blocks = append(blocks, bj)
	}
	fj["blocks"] = blocks
	return fj
}

func main() {
	os.Setenv("GODEBUG", "gotypesalias=0")
	repo := os.Args[1]
	tags := "verif"
	if len(os.Args) > 2 {
		tags = os.Args[2]
	}
	cfg := &packages.Config{Mode: packages.LoadAllSyntax, Dir: repo, BuildFlags: []string{"-tags=" + tags}}
	pkgs, err := packages.Load(cfg, ".", "./mux")
	if err != nil {
		fmt.Fprintln(os.Stderr, "load:", err)
		os.Exit(2)
	}
	if packages.PrintErrors(pkgs) > 0 {
		os.Exit(2)
	}
	var ssapkgs []*ssa.Package
	prog, ssapkgs = ssautil.AllPackages(pkgs, ssa.InstantiateGenerics|ssa.GlobalDebug)
	prog.Build()
	own := func(p *ssa.Package) bool {
		return p != nil && strings.HasPrefix(p.Pkg.Path(), "github.com/cloudwego/netpoll")
	}
	funcs := []J{}
	var names []string
	byName := map[string]*ssa.Function{}
	for f := range ssautil.AllFunctions(prog) {
		if !own(f.Pkg) && !(f.Pkg == nil && f.Synthetic != "" && strings.Contains(f.String(), "github.com/cloudwego/netpoll")) {
			continue
		}
		if f.Blocks == nil {
			continue
		}
		if strings.HasSuffix(prog.Fset.Position(f.Pos()).Filename, "_test.go") {
			continue
		}
		if f.Synthetic != "" && !strings.HasPrefix(f.Synthetic, "package init") {
			// wrappers and bound-method thunks are dumped too (needed for method values like c.onHup)
			if !strings.Contains(f.Synthetic, "bound method") && !strings.Contains(f.Synthetic, "wrapper") {
				continue
			}
		}
		if g, dup := byName[f.String()]; dup {
			// a declared method and the synthetic wrapper of a promoted unexported method of another package can print the same
			// name (the method identities differ by package): the declared function is the one netpoll's interfaces dispatch to
			if g.Synthetic != "" && f.Synthetic == "" {
				byName[f.String()] = f
			}
			continue
		}
		byName[f.String()] = f
		names = append(names, f.String())
	}
	sort.Strings(names)
	for _, n := range names {
		funcs = append(funcs, dumpFn(byName[n]))
	}
	// method sets of the package's named types (T and *T)
	methods := J{}
	globals := []J{}
	consts := []J{}
	for _, sp := range ssapkgs {
		if !own(sp) {
			continue
		}
		for _, m := range sp.Members {
			switch x := m.(type) {
			case *ssa.Type:
				for _, t := range []types.Type{x.Type(), types.NewPointer(x.Type())} {
					ms := prog.MethodSets.MethodSet(t)
					mj := J{}
					for i := 0; i < ms.Len(); i++ {
						fn := prog.MethodValue(ms.At(i))
						if fn != nil {
							nm := ms.At(i).Obj().Name()
							// unexported methods are package-qualified: of two entries with the same bare name keep the module's own
							if _, have := mj[nm]; have && (ms.At(i).Obj().Pkg() == nil || !strings.HasPrefix(ms.At(i).Obj().Pkg().Path(), "github.com/cloudwego/netpoll")) {
								continue
							}
							mj[nm] = fn.String()
						}
					}
					methods[regType(t)] = mj
				}
			case *ssa.Global:
				globals = append(globals, J{"name": x.String(), "type": regType(x.Type().(*types.Pointer).Elem())})
			case *ssa.NamedConst:
				cj := J{"name": x.String(), "type": regType(x.Type())}
				if x.Value != nil && x.Value.Value != nil {
					switch x.Value.Value.Kind() {
					case constant.Int:
						cj["val"] = x.Value.Value.ExactString()
					case constant.Bool:
						cj["val"] = constant.BoolVal(x.Value.Value)
					case constant.String:
						cj["val"] = constant.StringVal(x.Value.Value)
					default:
						cj["val"] = x.Value.Value.ExactString()
					}
				}
				consts = append(consts, cj)
			}
		}
	}
	// contract files: every *_verif.go under repo, raw //@ lines with file and line
	out := J{"funcs": funcs, "types": typeTab, "methods": methods, "globals": globals, "consts": consts}
	enc := json.NewEncoder(os.Stdout)
	if err := enc.Encode(out); err != nil {
		fmt.Fprintln(os.Stderr, err)
		os.Exit(2)
	}
}
