# gocv contract files: //@ lines in comment-only *_verif.go files of /repo (build tag verif).
# Declarations + a Pratt parser for the Go-flavoured expression language.
import glob, os, re

TOK = re.compile(r'''\s*(?:(\d+(?:\.\d+)?)|([A-Za-z_][A-Za-z_0-9$]*)|("(?:[^"\\]|\\.)*")|(==>|<==>|::|&&|\|\||==|!=|<=|>=|<<|>>|&\^|[-+*/%&|^<>!().,\[\]:{}=#]))''')


class ParseError(Exception):
    pass


def tokenize(s):
    out = []; i = 0
    s = s.rstrip()
    while i < len(s):
        m = TOK.match(s, i)
        if not m:
            if s[i:].strip() == '':
                break
            raise ParseError('bad token at %r' % s[i:i + 20])
        i = m.end()
        if m.group(1) is not None: out.append(('num', m.group(1)))
        elif m.group(2) is not None: out.append(('id', m.group(2)))
        elif m.group(3) is not None: out.append(('str', m.group(3)[1:-1]))
        else: out.append(('op', m.group(4)))
    out.append(('eof', ''))
    return out


class P:
    def __init__(self, text):
        self.text = text
        self.t = tokenize(text); self.i = 0

    def peek(self): return self.t[self.i]
    def next(self): x = self.t[self.i]; self.i += 1; return x
    def isop(self, o): return self.t[self.i] == ('op', o)
    def isid(self, o): return self.t[self.i] == ('id', o)
    def eat(self, o):
        if self.isop(o): self.i += 1; return True
        return False
    def expect(self, o):
        if not self.eat(o): raise ParseError('expected %r at token %d (%r) in %r' % (o, self.i, self.peek(), self.text))

    def type(self):
        s = ''
        while self.isop('*') or self.isop('['):
            if self.eat('*'): s += '*'
            else:
                self.expect('['); self.expect(']'); s += '[]'
        k, v = self.next()
        if k != 'id': raise ParseError('type expected in %r' % self.text)
        s += v
        if self.isop('.') and self.t[self.i + 1][0] == 'id':
            self.next(); s += '.' + self.next()[1]
        return s

    def expr(self):
        if self.isid('forall') or self.isid('exists'):
            kind = self.next()[1]
            vs = []
            while True:
                k, v = self.next()
                if k != 'id': raise ParseError('bound variable expected in %r' % self.text)
                vs.append((v, self.type()))
                if not self.eat(','): break
            trig = []
            while self.eat('{'):
                grp = []
                while True:
                    grp.append(self.expr())
                    if not self.eat(','): break
                self.expect('}')
                trig.append(grp)
            self.expect('::')
            return ('quant', kind, vs, trig, self.expr())
        return self.impl()

    def impl(self):
        a = self.orx()
        if self.eat('==>'): return ('bin', '==>', a, self.expr())
        if self.eat('<==>'): return ('bin', '<==>', a, self.expr())
        return a

    def orx(self):
        a = self.andx()
        while self.eat('||'): a = ('bin', '||', a, self.andx())
        return a

    def andx(self):
        a = self.cmp()
        while self.eat('&&'): a = ('bin', '&&', a, self.cmp())
        return a

    def cmp(self):
        a = self.add(); res = None
        while self.peek()[0] == 'op' and self.peek()[1] in ('==', '!=', '<', '<=', '>', '>='):
            op = self.next()[1]; b = self.add()
            c = ('bin', op, a, b)
            res = c if res is None else ('bin', '&&', res, c)
            a = b
        return res if res is not None else a

    def add(self):
        a = self.mul()
        while self.peek()[0] == 'op' and self.peek()[1] in ('+', '-', '|', '^'):
            op = self.next()[1]; a = ('bin', op, a, self.mul())
        return a

    def mul(self):
        a = self.unary()
        while self.peek()[0] == 'op' and self.peek()[1] in ('*', '/', '%', '&', '&^', '<<', '>>'):
            op = self.next()[1]; a = ('bin', op, a, self.unary())
        return a

    def unary(self):
        if self.isid('forall') or self.isid('exists'): return self.expr()
        if self.eat('!'): return ('un', '!', self.unary())
        if self.eat('-'): return ('un', '-', self.unary())
        if self.eat('*'): return ('un', '*', self.unary())
        return self.postfix()

    def postfix(self):
        e = self.primary()
        while True:
            if self.isop('.') and self.t[self.i + 1][0] == 'id':
                self.next(); e = ('field', e, self.next()[1])
            elif self.eat('['):
                lo = None
                if not self.isop(':'): lo = self.expr()
                if self.eat(':'):
                    hi = None
                    if not self.isop(']'): hi = self.expr()
                    self.expect(']'); e = ('slice', e, lo, hi)
                else:
                    self.expect(']'); e = ('index', e, lo)
            elif self.eat('('):
                args = []
                if not self.isop(')'):
                    while True:
                        args.append(self.expr())
                        if not self.eat(','): break
                self.expect(')'); e = ('call', e, args)
            elif self.eat('#'):
                # ghost component selector x#len etc.
                e = ('comp', e, self.next()[1])
            else:
                return e

    def primary(self):
        k, v = self.next()
        if k == 'num': return ('num', v)
        if k == 'str': return ('str', v)
        if k == 'id':
            if v == 'true': return ('bool', True)
            if v == 'false': return ('bool', False)
            if v == 'nil': return ('nil',)
            return ('id', v)
        if (k, v) == ('op', '('):
            e = self.expr(); self.expect(')'); return e
        if (k, v) == ('op', '[') and self.isop(']'):
            self.next()
            return ('id', '[]' + self.type())
        raise ParseError('unexpected %r in %r' % (v, self.text))


def parse_expr(s):
    p = P(s); e = p.expr()
    if p.peek()[0] != 'eof': raise ParseError('trailing input %r in %r' % (p.peek(), s))
    return e


def parse_ghost_stmts(text):
    out = []
    for s in split_top(text, ';'):
        s = s.strip()
        if not s: continue
        m = re.match(r'forall\s+(\w+)\s+(\S+)\s*::\s*(.*)$', s, re.S)
        if m:
            lhs, rhs = split_assign(m.group(3))
            out.append(('forall', m.group(1), m.group(2), parse_expr(lhs), parse_expr(rhs)))
            continue
        if s.startswith('assert '):
            out.append(('assert', parse_expr(s[7:]), s[7:])); continue
        if s.startswith('assume '):
            out.append(('assume', parse_expr(s[7:]), s[7:])); continue
        if s.startswith('if '):
            m = re.match(r'if\s+(.*?)\s+then\s+(.*)$', s, re.S)
            out.append(('if', parse_expr(m.group(1)), parse_ghost_stmts(m.group(2).replace(' also ', ';')))); continue
        if '=' in strip_cmp(s):
            lhs, rhs = split_assign(s)
            out.append(('assign', parse_expr(lhs), parse_expr(rhs)))
        else:
            out.append(('call', parse_expr(s)))
    return out


def strip_cmp(s):
    return s.replace('==', '').replace('!=', '').replace('<=', '').replace('>=', '').replace('==>', '')


def split_assign(s):
    depth = 0
    i = 0
    while i < len(s):
        ch = s[i]
        if ch in '([{': depth += 1
        elif ch in ')]}': depth -= 1
        elif ch == '=' and depth == 0:
            prev = s[i - 1] if i else ''
            nxt = s[i + 1] if i + 1 < len(s) else ''
            if prev not in '=!<>' and nxt != '=':
                return s[:i].strip(), s[i + 1:].strip()
            if nxt == '=': i += 1
        i += 1
    raise ParseError('no assignment in %r' % s)


def split_top(s, sep=','):
    out = []; depth = 0; cur = ''
    for ch in s:
        if ch in '([{': depth += 1
        if ch in ')]}': depth -= 1
        if ch == sep and depth == 0: out.append(cur.strip()); cur = ''
        else: cur += ch
    if cur.strip(): out.append(cur.strip())
    return out


CLAUSES = ('threadlocal', 'rely', 'params', 'results', 'takes', 'maypanic', 'requires', 'ensures', 'modifies', 'loop', 'property', 'assume', 'trusted', 'inline', 'panics', 'note', 'spawns', 'onpanic', 'decreases', 'ghost', 'reads', 'unroll', 'atexit', 'prestate', 'nosafety', 'lemma', 'implements', 'uses', 'forbid', 'nilable')


class FuncContract:
    def __init__(self, kind, name, src):
        self.kind = kind      # func | extern | functype | iface
        self.name = name
        self.src = src
        self.requires = []    # (text, ast)
        self.ensures = []
        self.modifies = None  # list of strings or None (= nothing)
        self.loops = {}       # ordinal -> {'invariant': [(text, ast)], 'modifies': [...], 'decreases': ...}
        self.properties = []
        self.assumes = []
        self.trusted = False
        self.inline = False
        self.notes = []
        self.flags = {}
        self.ghost = []       # (event, stmt text)
        self.lemmas = []
        self.relies = []
        self.threadlocal = []   # initial values of thread-local ghost state of a spawned goroutine (definitional)


class Contracts:
    def __init__(self):
        self.funcs = {}       # short name -> FuncContract
        self.ghostfields = {} # 'T.f' -> type
        self.ghostglobals = {}
        self.ghostmaps = {}
        self.ghostprocs = {}
        self.threadlocal_fields = set()
        self.chandecls = []
        self.pures = {}       # name -> (params [(n,t)], rettype, ast, text)
        self.lockwords = []
        self.couples = []
        self.binds = []       # (properties, 'T.f', func short name, via field or None, [maker funcs], src)
        self.worldrelies = []  # (text, ast, src): relations old -> new that every `modifies world` step preserves (assumed)
        self.owned = []       # (properties, ['T.f'], [func short names], src)
        self.files = []
        self.raw = []

    def add_decl(self, lines, src):
        head = lines[0].strip()
        toks = head.split(None, 1)
        kw = toks[0]
        rest = toks[1] if len(toks) > 1 else ''
        if kw == 'ghost':
            body = ' '.join([rest] + [l.strip() for l in lines[1:]])
            m = re.match(r'field\s+([\w.]+)\s+(\S+)(\s+threadlocal)?', body)
            if m:
                self.ghostfields[m.group(1)] = m.group(2)
                if m.group(3): self.threadlocal_fields.add(m.group(1))
                return
            m = re.match(r'global\s+(\w+)\s+(\S+)', body)
            if m: self.ghostglobals[m.group(1)] = m.group(2); return
            m = re.match(r'map\s+(\w+)\s+(\S+)', body)
            if m: self.ghostmaps[m.group(1)] = m.group(2); return
            raise ParseError('%s: bad ghost decl %r' % (src, body))
        if kw == 'ghostproc':
            body = ' '.join([rest] + [l.strip() for l in lines[1:]])
            m = re.match(r'(\w+)\s*\(([^)]*)\)\s*=\s*(.*)$', body, re.S)
            if not m: raise ParseError('%s: bad ghostproc decl %r' % (src, body))
            ps = []
            for p in split_top(m.group(2)):
                n, t = p.split(None, 1); ps.append((n, t.strip()))
            self.ghostprocs[m.group(1)] = (ps, parse_ghost_stmts(m.group(3)))
            return
        if kw in ('pure', 'pred'):
            body = ' '.join([rest] + [l.strip() for l in lines[1:]])
            m = re.match(r'(\w+)\s*\(([^)]*)\)\s*(\S*)\s*=\s*(.*)$', body, re.S)
            if not m: raise ParseError('%s: bad pure decl %r' % (src, body))
            ps = []
            for p in split_top(m.group(2)):
                n, t = p.split(None, 1); ps.append((n, t.strip()))
            rt = m.group(3) or 'bool'
            self.pures[m.group(1)] = (ps, rt, parse_expr(m.group(4)), m.group(4))
            return
        if kw in ('lockword', 'onceword', 'monotone', 'nonzero'):
            self.lockwords.append((kw, ' '.join([rest] + [l.strip() for l in lines[1:]]), src)); return
        if kw == 'chan':
            self.chandecls.append((' '.join([rest] + [l.strip() for l in lines[1:]]), src)); return
        if kw == 'worldrely':
            body = ' '.join([rest] + [l.strip() for l in lines[1:]])
            self.worldrelies.append((body, parse_expr(body), src)); return
        if kw == 'bind':
            body = ' '.join([rest] + [l.strip() for l in lines[1:]])
            m = re.match(r'(.*?):\s*([\w.]+)\s*=\s*(\S+)(?:\s+via\s+(\w+))?\s+in\s+(.*)$', body, re.S)
            if not m: raise ParseError('%s: bad bind decl %r' % (src, body))
            self.binds.append((m.group(1).split(), m.group(2), m.group(3), m.group(4), m.group(5).split(), src)); return
        if kw == 'owned':
            body = ' '.join([rest] + [l.strip() for l in lines[1:]])
            m = re.match(r'(.*?):(.*?)\bby\b(.*)$', body, re.S)
            if not m: raise ParseError('%s: bad owned decl %r' % (src, body))
            self.owned.append((m.group(1).split(), m.group(2).split(), m.group(3).split(), src)); return
        if kw == 'couple':
            self.couples.append((' '.join([rest] + [l.strip() for l in lines[1:]]), src)); return
        if kw in ('func', 'extern', 'functype', 'iface'):
            fc = FuncContract(kw, rest.strip(), src)
            cur = None
            clauses = []
            for l in lines[1:]:
                s = l.strip()
                if not s: continue
                w = s.split(None, 1)[0]
                if w in CLAUSES:
                    clauses.append(s)
                else:
                    if not clauses: raise ParseError('%s: continuation without clause: %r' % (src, s))
                    clauses[-1] += ' ' + s
            for c in clauses:
                w, _, r = c.partition(' ')
                r = r.strip()
                try:
                    if w == 'requires': fc.requires.append((r, parse_expr(r)))
                    elif w == 'ensures': fc.ensures.append((r, parse_expr(r)))
                    elif w == 'assume': fc.assumes.append((r, parse_expr(r)))
                    elif w == 'threadlocal': fc.threadlocal.append((r, parse_expr(r)))
                    elif w == 'lemma': fc.lemmas.append((r, parse_expr(r)))
                    elif w == 'modifies': fc.modifies = (fc.modifies or []) + split_top(r)
                    elif w == 'property': fc.properties += r.split()
                    elif w == 'trusted': fc.trusted = True; fc.notes.append('trusted: ' + r)
                    elif w == 'inline': fc.inline = True
                    elif w == 'note': fc.notes.append(r)
                    elif w == 'rely':
                        ent, _, rel = r.partition(':')
                        fc.relies.append((ent.strip(), parse_expr(rel), r))
                    elif w == 'ghost':
                        ev, _, body = r.partition(':')
                        fc.ghost.append((' '.join(ev.split()), parse_ghost_stmts(body), r))
                    elif w == 'loop':
                        m = re.match(r'(\d+)\s+(\w+)\s*(.*)$', r, re.S)
                        if not m: raise ParseError('bad loop clause %r' % c)
                        o = int(m.group(1)); lk = fc.loops.setdefault(o, {'invariant': [], 'modifies': None, 'decreases': None, 'unroll': None})
                        if m.group(2) == 'invariant': lk['invariant'].append((m.group(3), parse_expr(m.group(3))))
                        elif m.group(2) == 'modifies': lk['modifies'] = (lk['modifies'] or []) + split_top(m.group(3))
                        elif m.group(2) == 'decreases': lk['decreases'] = (m.group(3), parse_expr(m.group(3)))
                        elif m.group(2) == 'unroll': lk['unroll'] = int(m.group(3))
                        else: raise ParseError('bad loop clause %r' % c)
                    else:
                        fc.flags[w] = r
                except ParseError as e:
                    raise ParseError('%s: in %s %s: %s' % (src, kw, fc.name, e))
            if fc.name in self.funcs:
                raise ParseError('%s: duplicate contract for %s' % (src, fc.name))
            self.funcs[fc.name] = fc
            return
        raise ParseError('%s: unknown declaration %r' % (src, head))


def link_implements(cs):
    """`implements I.M` on a method contract: the method must be usable wherever the assumed interface contract I.M is applied at a
    dynamic call: it may not require more, must ensure at least as much (the interface's ensures are added to the method's own
    obligations) and may not modify more (checked when the method is verified)"""
    for fc in list(cs.funcs.values()):
        tgt = fc.flags.get('implements')
        if not tgt: continue
        ic = cs.funcs.get(tgt.strip())
        if ic is None or ic.kind != 'iface': raise ParseError('%s: implements %s: no such interface contract' % (fc.src, tgt))
        itexts = set(' '.join(t.split()) for t, _ in ic.requires)
        for t, _ in fc.requires:
            if ' '.join(t.split()) not in itexts:
                raise ParseError('%s: %s requires %r, which the interface contract %s does not give its callers' % (fc.src, fc.name, t, tgt))
        have = set(' '.join(t.split()) for t, _ in fc.ensures)
        for t, a in ic.ensures:
            if ' '.join(t.split()) not in have: fc.ensures.append((t, a))
        fc.flags['implements_modifies'] = list(ic.modifies or [])
        if 'results' not in fc.flags and 'results' in ic.flags: fc.flags['results'] = ic.flags['results']


def load_contracts(repo='/repo', extra_files=()):
    cs = Contracts()
    files = sorted(glob.glob(os.path.join(repo, '*_verif.go')) + glob.glob(os.path.join(repo, '*', '*_verif.go'))) + list(extra_files)
    for fn in files:
        cs.files.append(fn)
        decl = None; start = 0
        with open(fn) as f:
            for ln, line in enumerate(f, 1):
                s = line.rstrip('\n')
                st = s.strip()
                if not st.startswith('//@'):
                    if decl: cs.add_decl(decl, '%s:%d' % (os.path.basename(fn), start)); decl = None
                    continue
                body = st[3:]
                if body.strip() == '' :
                    if decl: cs.add_decl(decl, '%s:%d' % (os.path.basename(fn), start)); decl = None
                    continue
                if body.lstrip().startswith('//'):
                    continue  # comment inside contract block
                # strip trailing comment
                body = re.sub(r'\s//.*$', '', body)
                if body.startswith(' ') and not body.startswith('  '):
                    # top-level declaration (one space after //@)
                    if decl: cs.add_decl(decl, '%s:%d' % (os.path.basename(fn), start))
                    decl = [body]; start = ln
                else:
                    if decl is None: raise ParseError('%s:%d: continuation without declaration' % (fn, ln))
                    decl.append(body)
        if decl: cs.add_decl(decl, '%s:%d' % (os.path.basename(fn), start))
    link_implements(cs)
    return cs


def show(a):
    """unparse an expression AST (for obligation texts)"""
    if a is None: return ''
    k = a[0]
    if k == 'num': return a[1]
    if k == 'bool': return 'true' if a[1] else 'false'
    if k == 'nil': return 'nil'
    if k == 'str': return '"%s"' % a[1]
    if k == 'id': return a[1]
    if k == 'field': return '%s.%s' % (show(a[1]), a[2])
    if k == 'comp': return '%s#%s' % (show(a[1]), a[2])
    if k == 'index': return '%s[%s]' % (show(a[1]), show(a[2]))
    if k == 'slice': return '%s[%s:%s]' % (show(a[1]), show(a[2]), show(a[3]))
    if k == 'un': return '%s%s' % (a[1], show(a[2]))
    if k == 'bin': return '(%s %s %s)' % (show(a[2]), a[1], show(a[3]))
    if k == 'call': return '%s(%s)' % (show(a[1]), ', '.join(show(x) for x in a[2]))
    if k == 'quant': return '%s %s :: %s' % (a[1], ', '.join('%s %s' % (n, t) for n, t in a[2]), show(a[4]))
    return str(a)
