#!/usr/bin/env python3
# gocv replay: tries to reproduce a failed obligation on the real code.
# Drivers are registered per obligation-name pattern; each injects an in-package test with
# `go test -overlay` (nothing is written to /repo). Without a driver the violation is reported
# with the suffix no-failing-input-found and the replay file carries the solver output.
import sys, os, json, re, subprocess, tempfile, shutil
HERE = os.path.dirname(os.path.abspath(__file__))
ROOT = os.path.dirname(HERE)
GOENV = dict(os.environ, GOFLAGS='-mod=mod', GOPROXY='off', GOSUMDB='off', GOTOOLCHAIN='local')

DRIVERS = []   # (property, regex on obligation name, test file under /verif/replay, go test -run pattern)


def register():
    idx = os.path.join(ROOT, 'replay', 'drivers.json')
    if os.path.exists(idx):
        for d in json.load(open(idx)):
            DRIVERS.append((d['property'], re.compile(d['obligation']), d['test_file'], d['run'], d.get('pkg', '.')))


def run_overlay(repo, test_file, run, pkg='.', timeout=90):
    """run an in-package test from /verif/replay against repo without writing into it"""
    tmp = tempfile.mkdtemp(prefix='gocv-replay-', dir=os.environ.get('GOCV_TMP', '/var/tmp'))
    try:
        src = os.path.join(ROOT, 'replay', test_file)
        dst = os.path.join(repo, pkg, 'zz_gocv_replay_test.go') if pkg != '.' else os.path.join(repo, 'zz_gocv_replay_test.go')
        ov = os.path.join(tmp, 'ov.json')
        json.dump({'Replace': {dst: src}}, open(ov, 'w'))
        p = subprocess.run(['go', 'test', '-overlay', ov, '-vet=off', '-count=1', '-timeout', '%ds' % timeout, '-run', run, './' + pkg if pkg != '.' else '.'],
                           cwd=repo, env=GOENV, stdout=subprocess.PIPE, stderr=subprocess.STDOUT, timeout=timeout + 60)
        return p.returncode, p.stdout.decode()[-3000:]
    except subprocess.TimeoutExpired:
        return 124, 'replay timed out'
    finally:
        shutil.rmtree(tmp, ignore_errors=True)


def run_strace(repo, test_file, run, pkg='.', timeout=120):
    """build the in-package test binary with the overlay, run it under strace and count close(2) calls on the
    descriptor number the test prints between its GOCV-FD and GOCV-END markers"""
    tmp = tempfile.mkdtemp(prefix='gocv-replay-', dir=os.environ.get('GOCV_TMP', '/var/tmp'))
    try:
        src = os.path.join(ROOT, 'replay', test_file)
        dst = os.path.join(repo, pkg, 'zz_gocv_replay_test.go') if pkg != '.' else os.path.join(repo, 'zz_gocv_replay_test.go')
        ov = os.path.join(tmp, 'ov.json'); json.dump({'Replace': {dst: src}}, open(ov, 'w'))
        binp = os.path.join(tmp, 'replay.test')
        p = subprocess.run(['go', 'test', '-overlay', ov, '-vet=off', '-c', '-o', binp, './' + pkg if pkg != '.' else '.'], cwd=repo, env=GOENV, stdout=subprocess.PIPE, stderr=subprocess.STDOUT, timeout=300)
        if p.returncode: return 2, 'build failed: ' + p.stdout.decode()[-1500:]
        log = os.path.join(tmp, 'strace.log')
        p = subprocess.run(['strace', '-f', '-e', 'trace=close,write', '-o', log, binp, '-test.run', run, '-test.count=1'], cwd=os.path.join(repo, pkg), stdout=subprocess.PIPE, stderr=subprocess.STDOUT, timeout=timeout)
        lines = open(log).read().split('\n')
        fd = None; closes = []; active = False
        for l in lines:
            m = re.search(r'write\(2, "GOCV-FD (\d+)', l)
            if m: fd = m.group(1); active = True; continue
            if 'GOCV-END' in l: active = False
            if active and fd is not None and re.search(r'close\(%s\)' % fd, l): closes.append(l.strip())
        if fd is None: return 2, 'marker not found; test output: ' + p.stdout.decode()[-800:]
        out = 'descriptor %s: %d close(2) call(s) between the markers\n' % (fd, len(closes)) + '\n'.join(closes)
        return (1 if len(closes) != 1 else 0), ('FAIL ' if len(closes) != 1 else 'ok ') + out
    except subprocess.TimeoutExpired:
        return 124, 'replay timed out'
    finally:
        shutil.rmtree(tmp, ignore_errors=True)


def try_replay(pid, obligation, rep, repo):
    """run the drivers registered for this obligation (at most three) until one reproduces the failure on the real code"""
    if not DRIVERS: register()
    last = None; tried = 0
    for prop, rx, tf, run, pkg in DRIVERS:
        if prop == pid and rx.search(obligation):
            if tried >= 3: break
            tried += 1
            if tf.startswith('strace:'):
                rc, out = run_strace(repo, tf[7:], run, pkg)
                last = {'driver': tf, 'run': run, 'reproduced': rc == 1, 'exit': rc, 'output': out}
            else:
                rc, out = run_overlay(repo, tf, run, pkg)
                # drivers are written so that the test FAILS exactly when the real code misbehaves
                last = {'driver': tf, 'run': run, 'reproduced': rc not in (0, 124) and 'FAIL' in out, 'exit': rc, 'output': out}
            if last['reproduced']: return last
    return last


if __name__ == '__main__':
    # replay.py <replay-file>: re-run the driver recorded in a replay file
    rep = json.load(open(sys.argv[1]))
    r = try_replay(rep['property'], rep['obligation'], rep, rep.get('repo', '/repo'))
    print(json.dumps(r, indent=1) if r else 'no replay driver for %s; solver output and failing path are in the file' % rep['obligation'])
    sys.exit(1 if r and r.get('reproduced') else 0)
