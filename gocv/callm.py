# gocv calls: contracts at call sites, inlining, function values, interface invokes, builtins, select/channels.
import re
import z3
from z3 import Int, IntVal, Bool, BoolVal, And, Or, Not, Implies, If, Select, Store, K, Lambda
from ir import short
from vals import *
import cparse


class CallMixin:
    # ------------------------------------------------------------------ contract lookup
    def contract_for(self, fn_or_name):
        name = fn_or_name if isinstance(fn_or_name, str) else fn_or_name.name
        sn = self.shortfn(name)
        tc = getattr(self, 'top_contract', None)
        if tc is not None:
            # contract variants (`func F @tag`): the function under verification is checked against the variant; callees named in its
            # `uses` clause are applied with the named variant of their contract
            if name == getattr(self, 'top_name', None) and not getattr(self, '_in_callee_lookup', False): return tc
            u = self.top_uses.get(sn)
            if u is not None: return u
        return self.c.funcs.get(sn)

    def functype_contract(self, t, origin):
        if origin:
            c = self.c.funcs.get('field ' + origin)
            if c is not None: return c
        if t:
            c = self.c.funcs.get(self.shortfn(t))
            if c is not None and c.kind == 'functype': return c
        return None

    def iface_contract(self, iface, method):
        n = self.shortfn(iface) + '.' + method
        c = self.c.funcs.get(n)
        if c is not None and c.kind == 'iface': return c
        return None

    # ------------------------------------------------------------------ entry points
    def do_call(self, fr, st, ins, site, cont, spawn=False):
        args = [self.val(a, fr, st) for a in ins['args']]
        if 'invoke' in ins:
            recv = self.val(ins['recv'], fr, st)
            return self.call_invoke(fr, st, ins, site, recv, args, cont, spawn)
        fv = self.val(ins['callee'], fr, st)
        return self.call_value(fr, st, ins, site, fv, args, cont, spawn=spawn)

    def call_value(self, fr, st, ins, site, fv, args, cont, deferred=False, spawn=False):
        if isinstance(fv, IfaceV):   # deferred invoke
            return self.call_invoke(fr, st, ins, site, fv, args, cont, spawn)
        if not isinstance(fv, FuncV):
            raise Unsupported('call through %r' % (fv,))
        if fv.name is not None:
            name = fv.name
            if name.startswith('builtin:'):
                return self.builtin(fr, st, ins, site, name[8:], args, cont)
            bind = fv.bind
            if name.endswith('$bound'):
                name = name[:-6]; args = list(bind) + list(args); bind = None
            return self.call_named(fr, st, ins, site, name, args, bind, cont, spawn)
        if fv.origin == 'global:runner.RunTask' or (fv.origin or '').endswith('runner.RunTask'):
            # runner.RunTask(ctx, f): runs f exactly once on another goroutine (assumed contract of gopool / go)
            self.assumptions.add('runner.RunTask(ctx, f) runs f exactly once on another goroutine; tokens named in f\'s `takes` clause move with it')
            task = args[1]
            if isinstance(task, FuncV) and task.name is not None:
                return self.call_named(fr, st, ins, site, task.name, [], task.bind, cont, spawn=True)
            return cont(st, None)
        # dynamic function value
        self.oblige(st, fr, 'safety.nilfunc', short(fv.origin or 'value'), fv.id != 0, site)
        st.assume(fv.id != 0)
        c = self.functype_contract(fv.t, fv.origin)
        sig = ins.get('sig')
        if c is None:
            self.assumptions.add('call through function value %s (%s): no contract, assumed to return arbitrary values and to leave netpoll state unchanged' % (short(fv.origin or '?'), short(fv.t or sig or '?')))
            return cont(st, self.fresh_results(st, sig))
        return self.apply_contract(fr, st, c, None, args, ins, site, cont, sig=sig, spawn=spawn, fv=fv)

    def fresh_results(self, st, sig):
        _, d = self.p.under(sig) if sig else (None, {})
        rs = d.get('results', [])
        if not rs: return None
        vs = [self.fresh(st, t, 'ret') for t in rs]
        return vs[0] if len(vs) == 1 else TupleV(vs)

    def call_invoke(self, fr, st, ins, site, recv, args, cont, spawn=False):
        m = ins['invoke']
        if not isinstance(recv, IfaceV): raise Unsupported('invoke on %r' % (recv,))
        self.oblige(st, fr, 'safety.nilinvoke', m, recv.tag != 0, site)
        st.assume(recv.tag != 0)
        tagc = z3.simplify(recv.tag)
        if z3.is_int_value(tagc):
            tn = self.p.typename_of_id(tagc.as_long())
            fn = self.p.method(tn, m) if tn else None
            if fn is not None:
                if tn.startswith('*') and z3.is_expr(recv.val): st.assume(And(recv.val >= 0, recv.val <= st.alloc))   # a boxed pointer is a pointer
                rv = recv.box if recv.box is not None and not z3.is_expr(recv.box) else recv.val
                return self.call_named(fr, st, ins, site, fn, [rv] + list(args), None, cont, spawn)
        if not z3.is_int_value(tagc) and 'netpoll' in ins['iface']:
            # the path condition may pin the dynamic type (e.g. after typeis(v, *connection) in the contract): dispatch statically then
            for t in [t for t in self.p.methods if 'netpoll' in t and t.startswith('*') and self.p.implements(t, ins['iface']) and self.p.method(t, m)]:
                if self.feasible(st, recv.tag == self.p.typeid(t)) and not self.feasible(st, recv.tag != self.p.typeid(t)):
                    if z3.is_expr(recv.val): st.assume(And(recv.val >= 0, recv.val <= st.alloc))
                    return self.call_named(fr, st, ins, site, self.p.method(t, m), [recv.val] + list(args), None, cont, spawn, via_iface=True)
        c = self.iface_contract(ins['iface'], m)
        if c is None:
            # unexported package interface: only package types can be stored in it (closed world) -> dispatch per type
            iname = self.shortfn(ins['iface'])
            if 'netpoll' in ins['iface'] and iname[:1].islower() and '.' not in iname:
                impls = [t for t in self.p.methods if self.p.implements(t, ins['iface']) and self.p.method(t, m)]
                impls = [t for t in impls if t.startswith('*') or ('*' + t) not in impls]
                if impls:
                    self.assumptions.add('unexported interface %s: dynamic type is one of %s (closed world)' % (iname, ', '.join(self.shortfn(t) for t in impls)))
                    for t in impls:
                        cnd = recv.tag == self.p.typeid(t)
                        if not self.feasible(st, cnd): continue
                        s2 = st.copy(); s2.assume(cnd)
                        if t.startswith('*') and z3.is_expr(recv.val): s2.assume(And(recv.val >= 0, recv.val <= s2.alloc))
                        self.call_named(fr.fork(), s2, ins, site, self.p.method(t, m), [recv.val] + list(args), None, cont, spawn, via_iface=True)
                    return
        if c is None:
            self.assumptions.add('interface call %s.%s on an unknown dynamic type: no contract, assumed to return arbitrary values and to leave netpoll state unchanged' % (self.shortfn(ins['iface']), m))
            return cont(st, self.fresh_results(st, ins.get('sig')))
        return self.apply_contract(fr, st, c, None, [recv] + list(args), ins, site, cont, sig=ins.get('sig'), recv_iface=True)

    def call_named(self, fr, st, ins, site, name, args, bind, cont, spawn=False, via_iface=False):
        h = self.externs.get(name)
        if h is not None:
            return h(self, fr, st, ins, site, args, cont)
        c = self.contract_for(name)
        g = self.p.funcs.get(name)
        top = self.top_name
        if c is not None and c.kind in ('func', 'extern') and not c.inline:
            if (self.opts.get('nilrecv') and not via_iface and c.kind == 'func' and g is not None and g.j.get('recv') and args and z3.is_expr(args[0])
                    and g.params and self.K(g.params[0]['type']) == 'ptr' and 'nilable' not in c.flags):
                # the callee's body is verified under 'pointer receivers are non-nil': the direct caller owes that fact
                self.oblige(st, fr, 'safety.nilrecv', self.shortfn(name), args[0] != 0, site)
                st.assume(args[0] != 0)
            return self.apply_contract(fr, st, c, g, args, ins, site, cont, sig=ins.get('sig'), spawn=spawn, bind=bind)
        if spawn:
            self.assumptions.add('goroutine %s spawned: body verified separately (or not at all), no interleaving explored' % self.shortfn(name))
            return cont(st, None)
        if g is not None and g.blocks:
            if fr.depth >= self.maxdepth:
                raise Unsupported('inline depth exceeded at %s' % self.shortfn(name))
            self.inlined.add(self.shortfn(name))
            def k(s2, vals, f2, cont=cont):
                v = None if not vals else (vals[0] if len(vals) == 1 else TupleV(vals))
                cont(s2, v)
            def kp(s2, f2, caller=fr):
                self.unwind(caller, s2)
            f2 = self.run_function(g, args, st, k, kp, fr.depth + 1, bind=bind, parent=fr)
            return self.start(f2, st)
        # unknown external function
        self.assumptions.add('external function %s: no contract, assumed to return arbitrary values and to leave netpoll state unchanged' % short(name))
        return cont(st, self.fresh_results(st, ins.get('sig')))

    # ------------------------------------------------------------------ contract application
    def sig_names(self, c, g, sig):
        """(param names+types, result names+types) for a contract"""
        if g is not None:
            ps = [(p['name'], p['type']) for p in g.params]
            rn = c.flags.get('results', '').split() if c is not None else []
            rs = [((rn[i] if i < len(rn) else None) or r['name'] or ('result' if len(g.results) == 1 else 'result%d' % i), r['type']) for i, r in enumerate(g.results)]
            fv = [(p['name'], p['type']) for p in g.freevars]
            return ps, rs, fv
        _, d = self.p.under(sig) if sig else (None, {})
        pts = d.get('params', []); rts = d.get('results', [])
        hdr = c.flags.get('sig')
        pn = c.flags.get('params', '').split()
        rn = c.flags.get('results', '').split()
        ps = [(pn[i] if i < len(pn) else 'arg%d' % i, t) for i, t in enumerate(pts)]
        rs = [(rn[i] if i < len(rn) else ('result' if len(rts) == 1 else 'result%d' % i), t) for i, t in enumerate(rts)]
        return ps, rs, []

    def apply_contract(self, fr, st, c, g, args, ins, site, cont, sig=None, spawn=False, bind=None, fv=None, recv_iface=False):
        ps, rs, fvs = self.sig_names(c, g, sig)
        if recv_iface:
            ps = [('recv', ins['iface'])] + ps
        elif g is None and len(args) == len(ps) + 1 and 'callee' in ins and ins['callee'].get('k') == 'func' and ins['callee']['name'].startswith('('):
            # method of an external type: the receiver is the first argument
            nm_ = ins['callee']['name']
            rt_ = nm_[1:nm_.index(')')]
            pn_ = c.flags.get('params', '').split()
            _, d_ = self.p.under(sig) if sig else (None, {})
            pts_ = d_.get('params', [])
            ps = [(pn_[0] if pn_ else 'recv', rt_)] + [(pn_[i + 1] if i + 1 < len(pn_) else 'arg%d' % i, t) for i, t in enumerate(pts_)]
        vars = {}
        for (n, t), a in zip(ps, args):
            if z3.is_expr(a) and z3.is_app_of(a, z3.Z3_OP_ITE) and a.sort() == I:
                # an argument that is a conditional term (e.g. the payload of a comma-ok type assertion) is named: quantifier patterns of
                # the callee's contract may mention the parameter, and a pattern may not contain if-then-else
                c_ = fint('arg.' + n); st.assume(c_ == a); a = c_
            vars[n] = (a, t)
        if bind is not None:
            for (n, t), a in zip(fvs, bind):
                if isinstance(a, Loc) and a.arrlen is None:
                    vars[n] = (self.load_loc(st, a, facts=False), a.t)   # captured variable: the contract talks about its value
                else:
                    vars[n] = (a, t)
        env = {'st': st, 'old': None, 'vars': vars, 'fr': None}
        cname = self.shortfn(c.name)
        for n, (txt, ast) in enumerate(c.requires):
            g_ = self.ev_bool(ast, env)
            self.oblige(st, fr, 'pre', '%s.%d' % (cname, n + 1), g_, site, text=txt)
            st.assume(g_)
        if spawn:
            for t in c.flags.get('takes', '').split(','):
                t = t.strip()
                if t:
                    cond = BoolVal(True)
                    if ' if ' in t:
                        t, _, ctxt = t.partition(' if ')
                        cond = self.ev_bool(cparse.parse_expr(ctxt), env)
                    for key, idx, srt in self.ev_lval(cparse.parse_expr(t.strip()), env):
                        st.wr(key, idx, If(cond, BoolVal(False), st.rd(key, idx, srt)), srt)
            return cont(st, None)
        old = st.copy()
        oldenv = {'st': old, 'old': None, 'vars': dict(vars), 'fr': None}
        for m in (c.modifies or []):
            self.havoc_entry(st, m, g, c, oldenv)
        st.bump_alloc()
        res = []
        for n, t in rs:
            v = self.fresh(st, t, 'r.' + n)
            vars[n] = (v, t); res.append(v)
        if len(rs) == 1: vars['result'] = (res[0], rs[0][1])
        env = {'st': st, 'old': oldenv, 'vars': vars, 'fr': None}
        for txt, ast in c.ensures:
            st.assume(self.ev_bool(ast, env))
        for txt, ast in c.assumes:
            pass
        rv = None if not res else (res[0] if len(res) == 1 else TupleV(res))
        # vacuity guard: the assumed postcondition must not contradict the path (a contradiction would hide everything after the call)
        if fr is not None:
            o = Obl('%s/reach/after-call/%s' % (self.cur, cname) + ('#%d' % self.site_ord(fr.fn, site[0], site[1], self.instr_sig(site[2])) if site and site[2].get('op') in ('Call', 'Go', 'Defer') else ''), 'reachcall', list(st.pc), BoolVal(False), list(st.trace), ins.get('pos', ''), 'postcondition of %s is consistent with the path' % cname)
            o.expect = 'sat'
            self.obls.append(o)
        if 'maypanic' in c.flags and not self.opts.get('nopanic'):
            # the callee may panic instead of returning: run the caller's deferred calls from the pre-state
            s3 = old.copy()
            s3.trace.append(('panic in %s' % cname, -1))
            for m in (c.modifies or []):
                self.havoc_entry(s3, m, g, c, oldenv)
            penv = {'st': s3, 'old': oldenv, 'vars': dict(vars), 'fr': None}
            for txt in c.flags.get('onpanic', '').split(';;'):
                if txt.strip(): s3.assume(self.ev_bool(cparse.parse_expr(txt), penv))
            self.unwind(fr.fork(), s3)
        return cont(st, rv)

    def havoc_entry(self, st, entry, g, c, oldenv):
        e = entry.strip()
        if e == 'nothing': return
        if e == 'anything':
            for key in list(st.sorts):
                st.havoc(key)
            return
        if e == 'world':
            wk = self.world_keys()
            pre_world = st.copy() if self.c.worldrelies else None
            import tokens as _tk
            if not hasattr(self, 'token_rules'): self.token_rules = _tk.parse_rules(self)
            stable = {}
            for r in self.token_rules:
                if r.kind in ('nonzero', 'monotone') and r.key in st.sorts:
                    stable[r.key] = (r, st.arr(r.key, *st.sorts[r.key]))
            for key in list(st.sorts):
                if key in wk or key.startswith('mem:') or key.startswith('sync/atomic.Value') or key.startswith('chan.') or (key.startswith('global:') and key not in self.owned_keys()):
                    st.havoc(key)
            # what other threads / callbacks can never do to the declared words
            x = Int('st!x')
            for key, (r, oldarr) in stable.items():
                nidx, srt = st.sorts[key]
                new = st.arr(key, nidx, srt)
                if nidx == 2 and r.idx is not None:
                    o, n = Select(Select(oldarr, x), IntVal(r.idx)), Select(Select(new, x), IntVal(r.idx))
                elif nidx == 1:
                    o, n = Select(oldarr, x), Select(new, x)
                else: continue
                fact = Implies(o != 0, n != 0) if r.kind == 'nonzero' else (n >= o)
                st.assume(z3.ForAll([x], fact, patterns=[n]))
            for txt, ast, src in self.c.worldrelies:
                self.assumptions.add('worldrely (assumed of callbacks and other goroutines): %s' % txt)
                oe = {'st': pre_world, 'old': None, 'vars': {}, 'fr': None}
                st.assume(self.ev_bool(ast, {'st': st, 'old': oe, 'vars': {}, 'fr': None}))
            return
        root = e.split('.')[0].split('[')[0]
        if root in oldenv['vars']:
            for key, idx, srt in self.ev_lval(cparse.parse_expr(e), oldenv):
                st.arr(key, len(idx), srt)
                st.havoc_at(key, idx)
            return
        for key in self.mod_entry_keys(e, g, c):
            if key == 'mem:*':
                for k2 in list(st.sorts):
                    if k2.startswith('mem:'): st.havoc(k2)
                st.fresh_on_create.add('mem:*')
                continue
            st.havoc(key)

    # ------------------------------------------------------------------ rely (interference on shared atomics)
    def apply_rely(self, fr, st, loc):
        """before an atomic load of a word named in a `rely` clause of the function under verification:
        other threads may have changed it, subject to the declared relation was -> now"""
        top = fr
        while top.parent is not None: top = top.parent
        c = top.contract
        if c is None or not c.relies:
            self.assumptions.add('no interference modelled on atomic word %s in %s (value assumed unchanged between this thread\'s own accesses)' % (loc.key, self.cur))
            return
        matched = False
        for ent, rel, txt in c.relies:
            m = re.match(r'([\w.]+)(?:\[(\w+)\])?$', ent)
            if not m: raise Unsupported('bad rely entry %r' % ent)
            keys = self.mod_entry_keys(m.group(1), None)
            if loc.key not in keys: continue
            if m.group(2) is not None:
                k = m.group(2)
                kv = int(k) if k.isdigit() else self.const(k)[0].as_long()
                if len(loc.idx) < 2: continue
                cur = z3.simplify(loc.idx[1])
                if not (z3.is_int_value(cur) and cur.as_long() == kv): continue
            matched = True
            was = self.load_loc(st, loc, facts=False)
            now = self.fresh(st, loc.t, 'rely')
            env = {'st': st, 'old': None, 'vars': {'was': (was, loc.t), 'now': (now, loc.t)}, 'fr': top}
            st.assume(self.ev_bool(rel, env))
            for (cn, srt), x in zip(self.leaves(loc.t), self.comps(now)):
                st.wr(loc.key + cn, loc.idx, x, srt, log=False)
        if not matched:
            self.assumptions.add('no interference modelled on atomic word %s in %s (value assumed unchanged between this thread\'s own accesses)' % (loc.key, self.cur))

    # ------------------------------------------------------------------ builtins
    def builtin(self, fr, st, ins, site, name, args, cont):
        if name == 'len':
            x = args[0]
            if isinstance(x, SliceV): return cont(st, x.len)
            if isinstance(x, StrV): return cont(st, x.slen)
            if isinstance(x, Loc) and x.arrlen is not None: return cont(st, IntVal(x.arrlen))
            if z3.is_expr(x):   # channel
                v = fint('chanlen'); st.assume(v >= 0); return cont(st, v)
            raise Unsupported('len of %r' % (x,))
        if name == 'cap':
            x = args[0]
            if isinstance(x, SliceV): return cont(st, x.cap)
            raise Unsupported('cap of %r' % (x,))
        if name == 'copy':
            dst, src = args
            if isinstance(src, StrV):
                n = If(dst.len < src.slen, dst.len, src.slen)
                arr = fint('strarr')
                src = SliceV(arr, IntVal(0), src.slen, src.slen, dst.et)
            n = If(dst.len < src.len, dst.len, src.len)
            self.mem_copy(st, dst, src, n)
            return cont(st, n)
        if name == 'append':
            return self.do_append(fr, st, ins, site, args, cont)
        if name == 'close':
            return self.chan_close(fr, st, args[0], ins, site, cont)
        if name in ('print', 'println'):
            return cont(st, None)
        if name == 'recover':
            return cont(st, IfaceV(IntVal(0), IntVal(0)))
        if name == 'ssa:wrapnilchk':
            self.oblige(st, fr, 'safety.nil', 'wrapnilchk', args[0] != 0, site)
            return cont(st, args[0])
        if name in ('min', 'max'):
            a, b = args
            return cont(st, If(a < b, a, b) if name == 'min' else If(a > b, a, b))
        raise Unsupported('builtin ' + name)

    def mem_copy(self, st, dst, src, n):
        et = dst.et
        if self.K(et) == 'struct':
            self.assumptions.add('copy of struct elements not modelled')
            return
        key = 'mem:' + self.skey(et)
        for c, srt in self.leaves(et):
            a = st.arr(key + c, 2, srt)
            i = Int('cp!i')
            # fresh inner array B with a defining axiom (pattern-friendly; lambdas would poison E-matching)
            B = z3.Const(fresh_name('cpy!' + key + c), z3.ArraySort(I, srt))
            # raw-index pattern; the source element is addressed through at() so that element patterns of hypotheses match
            st.assume(z3.ForAll([i], Select(B, i) == If(And(i >= dst.base, i < dst.base + n), Select(Select(a, src.arr), self.at(src.base, i - dst.base)), Select(Select(a, dst.arr), i)),
                                patterns=[Select(B, i)]))
            st.heap[key + c] = Store(a, dst.arr, B)
            st.writes.append((key + c, (dst.arr, None)))

    def do_append(self, fr, st, ins, site, args, cont):
        s, e = args
        if not isinstance(s, SliceV): raise Unsupported('append to %r' % (s,))
        if isinstance(e, StrV):
            e = SliceV(fint('strarr'), IntVal(0), e.slen, e.slen, s.et)
        et = s.et
        n = e.len
        # two paths: the elements fit in place, or a fresh larger array receives a copy
        for fits in (True, False):
            cond = (s.len + n <= s.cap) if fits else (s.len + n > s.cap)
            if not self.feasible(st, cond): continue
            s2 = st.copy(); s2.assume(cond)
            if fits:
                res = SliceV(s.arr, s.base, s.len + n, s.cap, et)
                self.mem_copy(s2, SliceV(s.arr, s.base + s.len, n, n, et), e, n)
            else:
                arr = s2.newref('append')
                ncap = fint('newcap'); s2.assume(ncap >= s.len + n)
                res = SliceV(arr, IntVal(0), s.len + n, ncap, et)
                self.mem_copy(s2, SliceV(arr, IntVal(0), s.len, s.len, et), s, s.len)
                self.mem_copy(s2, SliceV(arr, s.len, n, n, et), e, n)
            cont(s2, res)

    # ------------------------------------------------------------------ channels / select (typestate hooks live in externs)
    def chan_make(self, st, ch, size):
        st.wr('chan.cap', (ch,), size, I, log=False)
        st.wr('chan.count', (ch,), IntVal(0), I, log=False)
        st.wr('chan.closed', (ch,), BoolVal(False), B, log=False)

    def chan_recv(self, fr, st, ch, ins, site):
        rule = self.chan_hook(fr, st, 'recv', ch, ins, site, operand=ins['x'])
        t = ins['type']
        if ins.get('commaok'):
            _, d = self.p.under(t)
            v = self.fresh(st, d['elems'][0], 'recv'); ok = fbool('recvok')
            return TupleV([v, ok])
        v = self.fresh(st, t, 'recv')
        if rule is not None:
            st.assume(self.ev_bool(rule[0], {'st': st, 'old': None, 'vars': {'v': (v, t)}, 'fr': fr}))
        return v

    def chan_send(self, fr, st, ch, v, ins, site):
        self.chan_hook(fr, st, 'send', ch, ins, site, operand=ins['chan'], value=v)

    def chan_close(self, fr, st, ch, ins, site, cont):
        self.oblige(st, fr, 'safety.closeclosed', '', Not(st.rd('chan.closed', (ch,), B)), site)
        st.wr('chan.closed', (ch,), BoolVal(True), B)
        return cont(st, None)

    def event(self, fr, st, kind, ch, ins, site):
        pass

    def do_select(self, fr, st, ins, site, cont):
        """nondeterministic choice among the cases; result tuple (index, recvOk, recv values...)"""
        states = ins['states']
        _, d = self.p.under(ins['type'])
        ets = d['elems']
        choices = list(range(len(states)))
        if not ins['blocking']: choices.append(-1)
        # a send case is an *attempt* to send: its ghost event and channel invariant are checked once, whatever the outcome
        for si, sst in enumerate(states):
            if sst['dir'] != 2:
                ch = self.val(sst['chan'], fr, st)
                self.chan_hook(fr, st, 'send', ch, ins, site, operand=sst['chan'], sidx=si, value=self.val(sst['send'], fr, st))
        for ci in choices:
            s2 = st.copy()
            f2 = fr.fork()
            vals = [IntVal(ci), fbool('recvok')]
            ri = 2
            for si, sst in enumerate(states):
                if sst['dir'] == 2:   # recv
                    if si == ci:
                        ch = self.val(sst['chan'], f2, s2)
                        rule = self.chan_hook(f2, s2, 'recv', ch, ins, site, operand=sst['chan'], sidx=si)
                        v = self.fresh(s2, ets[ri], 'recv')
                        if rule is not None:
                            s2.assume(self.ev_bool(rule[0], {'st': s2, 'old': None, 'vars': {'v': (v, ets[ri])}, 'fr': f2}))
                    else:
                        v = self.zero(ets[ri])
                    vals.append(v); ri += 1
            if ci == -1:
                # the default branch runs only when no case is ready; a receive from a closed channel is always ready, so none of the
                # channels of the receive cases is closed at this instant
                for sst in states:
                    if sst['dir'] == 2:
                        chv = self.val(sst['chan'], f2, s2)
                        if z3.is_expr(chv):
                            s2.assume(Not(s2.rd('chan.closed', (chv,), B)))
                            self.assumptions.add('a channel seen not closed by a select that took its default branch is not closed by another goroutine before this goroutine\'s next step (%s)' % self.cur)
            s2.trace.append(('select case %d' % ci, -1))
            cont(s2, TupleV(vals))

    def select_recv_value(self, fr, st, ch, t, ins, site):
        return self.fresh(st, t, 'recv')
