# Per-property claims: what the gocv check of each property decides, assumes and leaves undecided.
# Single source for MANIFEST.json (mkmanifest.py) and for the `not_decided` list of every evidence file (check.py).
TECH = "contract-based deductive verification: WP-style VCs generated over go/ssa of /repo + //@ contracts (comment-only *_verif.go files), discharged by z3 5.1 / z3 4.8 / cvc5; static SSA scans for the `owned`/`bind` declarations"

CLAIMS = {
 'C01': dict(
  text="Deductive proof (unbounded) of representation-invariant preservation and FIFO position/count postconditions for the LinkBuffer methods under contract; every obligation is generated from the go/ssa of /repo and discharged by an SMT solver.",
  note="Proved: wf preservation, exact consumed/flushed/pending stream positions and both counters, zero-copy result regions, failing reads change nothing, Close, readCopy, GetBytes, Bytes, Until, thin contracts of WriteBuffer/Append/WriteDirect (safety, counters, cursors, frames), for all sizes/capacities/chain shapes. Assumed: allocator contracts (malloc/free/dirtmake), sync.Pool freshness, int/int64 mathematical, sequential use per buffer.",
  nd=["byte contents of copying reads beyond 'copied from the region at the stream position' (memory is modelled per region, not per history)", "the representation invariant of the receiver after Append/WriteBuffer/WriteDirect and hence reads, Flush and further writes on an appended-to or split buffer (the three functions carry thin contracts: memory safety, counters, cursors, flags, frames; between Append and Flush the donor's readable bytes lie behind the flush cursor, and WriteDirect leaves two nodes looking into one block - both outside wf)", "concurrent reader/poller use of one buffer (sequential contracts; the connection layer's split discipline is assumed)"]),
 'C02': dict(
  text="Deductive proof that zero-copy results (Next/Peek/ReadBinary/GetBytes/Malloc regions) are regions of nodes that stay owned and unrecycled until Release/Close of their buffer; Refer takes exactly one reference on the root block.",
  note="Proved for the methods under contract: result regions lie inside live nodes, nodes with exposed regions are flagged read-only, Release recycles only consumed nodes, peek-cache validity, Refer's refcount rule, Slice (parent side: exact consumption, one counted reference per view, exposed nodes flagged, implicit Release). Assumed: as C01.",
  nd=["operations on Slice readers themselves (the view buffer returned by Slice is not described by wf; the parent side of Slice, Refer and node.Release are verified)", "use-after-Release by the caller (a caller obligation, not netpoll's)"]),
 'C03': dict(
  text="Deductive proof of the pool discipline: every free() is of a block the buffer owns in state 'handed out', at most once (ghost pool state machine 0/1/2), and caller memory (ghost pool state 0) is never freed or written.",
  note="Proved: malloc/free pairing on Release, Close, closeBuffer, growth, readBinary's private copies never enter caches; Refer/node.Release refcount balance per call. Assumed: mcache contract (a block is either in the pool or handed out once).",
  nd=["ownership after WriteDirect across later operations (WriteDirect itself is verified: caller memory is wrapped unmanaged, the block of the split node passes to exactly one new managed node, nothing is freed; WriteBuffer/Append are verified: every node.Release of both loops meets its precondition and only donor nodes outside read..write are recycled)", "global balance of refcounts across arbitrary Slice trees (per-call contracts only)"]),
 'C04': dict(
  text="Deductive proof that the connection's poller callbacks (inputs/inputAck/outputs/outputAck/flush/sendmsg accounting) move the buffer positions by exactly the byte counts the kernel reported.",
  note="Proved: iovecs builds one entry per non-empty chunk, in order, inside the array, describing at most MaxInt32 bytes and cutting only the last entry; resetIovecs clears the vector; inputAck(n) publishes exactly n booked bytes, outputAck(n) consumes exactly n flushed bytes, ioread/iosend preconditions, Flush/flush accounting with short writes. Assumed: kernel contracts of readv/sendmsg (trusted raw syscalls), sequential poller per connection (token).",
  nd=["byte values on the wire (kernel)", "ordering between two connections"]),
 'C05': dict(
  text="Deductive proof with linear thread-local tokens that teardown runs once: the closing word is written once (non-zero, never back), close callbacks run only under the processing token taken exactly once, buffers and slot are released once, on normal and panic paths.",
  note="Proved: token discipline of closeCallback/onClose/Close/onHup/onProcess task/Detach, once-only closeBuffer and operator.Free, panic path of the handler task. Assumed: rely facts on shared words (listed per function), user callbacks keep the connection invariant (functype contracts).",
  nd=["interleavings not expressible as rely facts on single words (C19 territory)", "liveness (that teardown eventually happens)"]),
 'C06': dict(
  text="Deductive proof of the hand-off pattern of the handler task: OnRequest invocations are serial (processing token), and on every exit path the task released the token and re-checked closing state and input length after the release, retrying the lock when there is input.",
  note="Proved: pattern obligations on onProcess task (unlock -> re-read closing -> re-read length -> retry), peer close leaves the loop only after the buffer was seen empty or the user closed, inputAck publishes before it tries to start a task. Assumed: rely facts on length/closing/processing words.",
  nd=["the paper lemma that the pattern implies no stranded input (Appendix A; trusted)", "fairness/liveness of the runner"]),
 'C07': dict(
  text="Deductive proof of the blocking-read pattern: waitRead publishes the wanted size before it re-reads length and closing state, blocks only if both said 'wait', timers are stopped and drained on every exit (typestate), and the errors are exactly ErrReadTimeout/ErrEOF/ErrConnClosed.",
  note="Proved: publish/re-check pattern, timer typestate 0/1/2 across all exits of waitReadWithTimeout, error kinds, fast path n <= Len(). Assumed: runtime timer/channel semantics (legacy timer channel), rely facts on length and closing.",
  nd=["wake-up liveness (that the trigger is eventually sent) beyond inputAck's 'trigger when waitReadSize <= length' obligation", "wall-clock accuracy of timeouts"]),
 'C08': dict(
  text="Deductive proof of Flush/flush/waitFlush: nil is returned only after the output buffer was fully handed to sendmsg, the flushing token is released on every path, registration for writability precedes the wait, timer typestate as C07.",
  note="Proved: byte accounting of flush loop with short writes and EAGAIN, R2RW registration before blocking, ErrWriteTimeout/ErrConnClosed mapping, token release. Assumed: sendmsg kernel contract, rely facts.",
  nd=["the poller-side ordering of rw2r (Control before triggerWrite) against a concurrent second Flush", "liveness"]),
 'C09': dict(
  text="Deductive proof of callback ordering obligations on onConnect/onProcess/onDisconnect/onHup/closeCallback: OnConnect under the connecting token before any OnRequest, OnDisconnect at most once and only with state connected, close callbacks last under the sealed processing token.",
  note="Proved: state machine transitions 0->1->2 monotone, OnDisconnect guarded by the 1->2 transition, hand-over to the task when the poller loses the connecting lock, OnPrepare completes before register() in onPrepare, connection.init establishes the connection invariant and never closes the caller's Conn. Assumed: rely facts, user callback contracts, a connection under construction is private to its goroutine.",
  nd=["'exactly once' for OnDisconnect on peer close needs the hand-over lemma (Appendix A)", "callback order across goroutines beyond what the state word and the two locks sequence"]),
 'C10': dict(
  text="Deductive proof of the slot cache and of the poller's use of slots: alloc hands out only free-list slots (never owned or waiting ones), freeable waits for the do/done token, resets and queues, free() splices back only between batches; handler and Release release every token they take; lock invariants of both cache locks.",
  note="Proved: ghost slot state machine 0/1/2 with free-list shape invariant (ranks), freelist distinctness, Wait calls free() only when no fetched event is pending (ghost hFetched), handler never leaves a token taken, Release on a closed connection takes no token. Assumed: worldrely facts (token-held slots are not reset; owned slots stay registered), append-only slot table.",
  nd=["descriptor-number reuse in the kernel", "data of bystander connections (follows from token isolation only informally)", "stale Close/read/write calls other than Release/Reader API on closed connections"]),
 'C11': dict(
  text="Deductive proof of the handler's per-event protocol: every ioread result is acknowledged with exactly that count before anything else, same for iosend/OutputAck; hang-up is queued only after readall when readable and only if nothing was read, at most once per event and after detach; the close message closes both descriptors once and ends Wait; Trigger writes iff the flag was clear.",
  note="Proved: pattern obligations with ghost flags over all flag combinations (IN/OUT/HUP/RDHUP/ERR are symbolic), token released exactly once per event, appendHup captures OnHup at dispatch time and detaches before done(), Wait/reset sizes, openDefaultPoll all-or-nothing. Assumed: kernel contracts (epoll_wait/ctl, readv, sendmsg, eventfd), callbacks leave poller-private state alone (checked for netpoll's own code by the ownership scan).",
  nd=["what the kernel reports for a given peer behaviour", "no callbacks after detach across batches (needs kernel EPOLL_CTL_DEL semantics)", "lost wake-up between two goroutines beyond the path-local pattern (the wake-up flag is cleared only after the wake-up descriptor was drained in the same iteration: proved)"]),
 'C12': dict(
  text="Deductive proof, on closed-state contract variants of the real function bodies, that every Reader call on a locally closed quiescent connection returns ErrConnClosed (or nil for n <= 0), never blocks and never panics; Writer calls are guarded by IsActive; exception.Is matches ErrEOF with ErrConnClosed; Close is idempotent (token).",
  note="Proved: LinkBuffer methods on a closed buffer (no panic, error iff n > 0), connection Next/Peek/Skip/ReadString/ReadBinary/ReadByte/Slice/Until/Release closed variants, waitRead closed variant incl. expired deadline, writer API guards. Pattern: onClose wakes a blocked reader and a blocked flusher before it waits for them in closeCallback (a Close never deadlocks with a parked Flush). Assumed: quiescence (no concurrent close while the call runs).",
  nd=["the Reader methods on the still-open buffer after a peer close (waitRead's peer-closed variant is proved: buffered bytes are granted, then ErrEOF)", "a close racing with an in-flight Reader call (C19)"]),
 'C13': dict(
  text="Deductive proof of ordering/pattern obligations of the server: onAccept registers the untrack callback before storing and stores before starting callbacks, and does neither for a connection that died in init; Shutdown detaches and closes the listener before sweeping, closes idle and counts busy connections, returns nil only right after a sweep; the EMFILE retry goroutine exits only through re-registering.",
  note="Proved: ghost-flag ordering in onAccept/Close/Close$1/OnRead/OnRead$1; isIdle implies the processing lock free and both buffers empty; the EMFILE retry goroutine pauses at most one second between accept attempts and leaves only by re-registering the listener. Assumed: sync.Map contract, Listener.Accept returns netpoll Conns, global invariants of the callback list and poller pool at entry of onAccept.",
  nd=["that the tracked set equals the set of open accepted connections (needs a model of sync.Map contents)", "Serve has returned / descriptors closed at Shutdown's nil", "deadline behaviour in wall-clock terms"]),
 'C14': dict(
  text="Deductive proof for the dial path: exactly one of connection/error (DialConnection: known finding), the deadline error reports Timeout(), WaitWrite deregisters before returning a context error, connect gives the wait slot back on every path, socket closes the descriptor on every dial error.",
  note="Proved: mapErr, WaitWrite, connect (slot ownership frame), dial, socket (descriptor closed exactly once on error, non-blocking mode reaches connect), newPollDesc, the retry loop of sysDialer.dialTCP closes every abandoned socket, dialer.dialTCP returns the error of the attempt that observed the expired deadline, DialTCP/DialUnix/dialer.dialTCP/NewFDConnection return exactly one of connection/error. Assumed: context package contract, resolver results, Pick does not fail (C18 finding).",
  nd=["'within its timeout plus slack' (time)", "usable in both directions after success", "address conversion, address-family choice and self-connect detection helpers (trusted thin contracts)"]),
 'C15': dict(
  text="Deductive proof with a ghost descriptor table (fdopen/closecnt) that each function under contract closes only descriptors it owns, exactly once, on success and error paths: netFD.Close, listener.Close, parseFD/ConvertListener, sysSocket, socket, openDefaultPoll, handler's poller exit, the connection finalizer.",
  note="Proved: close preconditions (owned and open) at every syscall.Close/File.Close site under contract, all-or-nothing descriptor creation, manager.Run stops every poller it started when a later open fails, connection.init never closes the caller's Conn. Assumed: kernel/stdlib contracts (Socket, Accept, dup via File(), eventfd, epoll_create).",
  nd=["whole-process 'no descriptor left' (needs a global ownership ledger across all objects)", "descriptors 0..2 are never closed by netFD.Close (observation)", "ConvertListener returns the listener together with a SetNonblock error (observation)"]),
 'C16': dict(
  text="Deductive proof that the io.Reader/io.Writer adapters (zcReader/zcWriter/ioReader/ioWriter) move exactly the bytes reported by the wrapped Read/Write between the stream and the LinkBuffer, for every short read/write and error.",
  note="Proved: ghost produced/sunk counters against buffer positions, fill loop with n == 0 reads, flush keeps unsent bytes on short write. Assumed: io.Reader/io.Writer contracts (0 <= n <= len(p)).",
  nd=["byte values", "io.EOF mapping in ioReader (dropped clause)"]),
 'C17': dict(
  text="Deductive proof of ShardQueue: every added getter is executed exactly once in order per shard (ghost dealn), the trigger count is decremented only after deal, the shard index is in range for all counter values, close drains.",
  note="Proved: Add (index arithmetic incl. wrap), triggering/foreach/deal/deal loop, swap buffers do not alias the batch being executed. Assumed: runner executes the task once, WriterGetter contract.",
  nd=["flush errors of the connection", "fairness between shards"]),
 'C18': dict(
  text="Deductive proof of the poller pool: SetNumLoops/Run/Close keep len(polls) == numLoops with every poller running and distinct, a shrink closes exactly the dropped pollers, the balancer is rebuilt before the pool is published; Pick returns a running poller.",
  note="Proved on Run/SetNumLoops/SetLoadBalance/Close/Pick/load balancers (a change of balancing mode keeps the balancer in sync with the running pollers). Known finding: Pick after a failed Run (three obligations). Assumed: openPoll contract (now proved separately for openDefaultPoll), goroutine start.",
  nd=["pollers actually making progress", "fault injection on openPoll beyond the recorded finding"]),
}

NOT_APPLICABLE = {
 'C19': "data-race freedom is a whole-program happens-before/permission argument over all goroutines; the contract verifier built here reasons one goroutine at a time (thread-local tokens, rely facts on single atomic words) and assumes race freedom of token-protected state rather than deciding it; the property's own oracle is the race detector, a different family. See DESIGN.md section 12.",
}
