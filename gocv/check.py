#!/usr/bin/env python3
# gocv check: decide one property = discharge every obligation of every function whose contract names it.
#   check.py <property-id> [--tier quick|thorough] [--repo DIR] [--update-lock] [--jobs N]
# exit 0: every claimed obligation discharged (known findings printed as KNOWN-FINDING lines)
# exit 1: "VIOLATION property=<id> replay=<path>[ no-failing-input-found]"
import sys, os, json, time, glob, traceback, hashlib, re
HERE = os.path.dirname(os.path.abspath(__file__))
sys.path.insert(0, HERE)
import ir, cparse
from vals import Unsupported

ROOT = ir.ROOT
LOCK = os.path.join(ROOT, 'obligations.lock')
KNOWN = os.path.join(ROOT, 'known_findings.json')

_G = {}


def load_all(repo):
    prog = ir.load_program(repo)
    cs = cparse.load_contracts(repo, extra_files=sorted(glob.glob(os.path.join(ROOT, 'contracts', '*_verif.go'))))
    return prog, cs


def owned_scan(prog, cs):
    """static ownership check for `//@ owned P.. : T.f .. by F ..` declarations: outside the listed functions an owned field may only be
    loaded; stores, address escapes and whole-struct stores of the enclosing type are refused.  One obligation per field."""
    from ir import short
    out = {'fn': '@owned', 'status': 'ok', 'obls': {}, 'assumptions': [], 'inlined': [], 'paths': 0, 'gen_s': 0, 'solve_s': 0, 'error': None}
    def regs(x, acc):
        if isinstance(x, dict):
            if x.get('k') == 'reg': acc.append(x['name'])
            else:
                for v in x.values(): regs(v, acc)
        elif isinstance(x, list):
            for v in x: regs(v, acc)
        return acc
    allbad = []
    for props, fields, funcs, src in cs.owned:
        gset = set(f[7:] for f in fields if f.startswith('global:'))
        fset = set(fields); tset = set(f.rsplit('.', 1)[0] for f in fields if not f.startswith('global:'))
        bad = {f: [] for f in fields}; allbad.append(bad)
        for name, fn in prog.funcs.items():
            sn = ir_short(prog, name)
            if sn in funcs or not fn.blocks: continue
            ins_all = [i for b in fn.blocks for i in b['instrs']]
            owned_regs = {}
            for i in ins_all:
                if i['op'] == 'FieldAddr':
                    tf = short(i['struct']).split('.')[-1] + '.' + i['field']
                    if tf in fset: owned_regs[i['name']] = tf
            for i in ins_all:
                if gset and i['op'] not in ('DebugRef',) and not (i['op'] == 'UnOp' and i.get('unop') == '*'):
                    # a package variable declared owned: outside the listed functions it may only be loaded
                    def gl(x, acc):
                        if isinstance(x, dict):
                            if x.get('k') == 'global': acc.append(ir_short(prog, x['name']))
                            else:
                                for v in x.values(): gl(v, acc)
                        elif isinstance(x, list):
                            for v in x: gl(v, acc)
                        return acc
                    for gname in gl(i, []):
                        if gname in gset: bad['global:' + gname].append('%s: %s of &%s at %s' % (sn, i['op'], gname, i.get('pos')))
                if i['op'] == 'Store':
                    et = short(i['addr'].get('type', '')).lstrip('*').split('.')[-1]
                    if et in tset and i['addr'].get('k') != 'reg':
                        for f in fields:
                            if f.startswith(et + '.'): bad[f].append('%s: whole-struct store at %s' % (sn, i.get('pos')))
                if i['op'] == 'DebugRef': continue
                if i['op'] == 'UnOp' and i.get('unop') == '*': continue
                for r in regs({k: v for k, v in i.items() if k != 'name'}, []):
                    if r in owned_regs:
                        if i['op'] == 'Store' and i['addr'].get('name') != r: continue   # the loaded address is not what is stored to
                        # fields of an object allocated in this very function (composite literal, local variable) are not a published poller's
                        d = [j for j in ins_all if j.get('name') == r][0]['x']
                        while d.get('k') == 'reg':
                            dd = [j for j in ins_all if j.get('name') == d['name']]
                            if dd and dd[0]['op'] in ('FieldAddr',): d = dd[0]['x']
                            else: break
                        dd = [j for j in ins_all if d.get('k') == 'reg' and j.get('name') == d['name']]
                        if dd and dd[0]['op'] == 'Alloc': continue
                        bad[owned_regs[r]].append('%s: %s of &%s at %s' % (sn, i['op'], owned_regs[r], i.get('pos')))
        pass
    for props, tf, fnb, via, makers, src in cs.binds:
        tn, fnm = tf.rsplit('.', 1)
        bad = []
        nstores = 0
        for name, fn in prog.funcs.items():
            sn = ir_short(prog, name)
            if not fn.blocks: continue
            ins_all = [i for b in fn.blocks for i in b['instrs']]
            byname = {i['name']: i for i in ins_all if i.get('name')}
            for i in ins_all:
                if i['op'] == 'Alloc' and short(i.get('elem', '')) in (tn, 'netpoll.' + tn) and sn not in makers:
                    bad.append('%s: allocates a %s at %s' % (sn, tn, i.get('pos')))
                if i['op'] == 'FieldAddr' and short(i['struct']).split('.')[-1] == tn and i['field'] == fnm:
                    for j in ins_all:
                        if j['op'] in ('DebugRef',) or (j['op'] == 'UnOp' and j.get('unop') == '*'): continue
                        if i['name'] not in regs({k: v for k, v in j.items() if k != 'name'}, []): continue
                        ok = False
                        if j['op'] == 'Store' and j['addr'].get('name') == i['name'] and sn in makers:
                            v = byname.get(j['val'].get('name'))
                            if v and v['op'] == 'MakeClosure' and ir_short(prog, v['fn']['name'] if isinstance(v['fn'], dict) else v['fn']) == fnb + '$bound' and len(v['bindings']) == 1:
                                b0 = v['bindings'][0]
                                if via:
                                    bb = byname.get(b0.get('name'))
                                    ok = bool(bb and bb['op'] == 'FieldAddr' and bb['field'] == via and bb['x'] == i['x'])
                                else:
                                    ok = b0 == i['x']
                            nstores += 1
                        if not ok: bad.append('%s: %s of &%s at %s' % (sn, j['op'], tf, j.get('pos')))
        if nstores == 0: bad.append('no store binds the field')
        nm = '@owned/bind/%s' % tf
        out['obls'][nm] = {'status': 'discharged' if not bad else 'refuted', 'kind': 'owned', 'instances': 1, 'time_s': 0.0, 'backends': ['ssa-scan'],
                           'text': 'field %s always holds %s bound to its own struct; %s values are made only by %s (%s)' % (tf, fnb, tn, ', '.join(makers), '; '.join(bad[:5])), 'where': src, 'models': [], 'traces': [], 'results': ['unsat' if not bad else 'sat']}
    for (props, fields, funcs, src), bad in zip(cs.owned, allbad):
        for f in fields:
            nm = '@owned/static/%s' % f
            out['obls'][nm] = {'status': 'discharged' if not bad[f] else 'refuted', 'kind': 'owned', 'instances': 1, 'time_s': 0.0, 'backends': ['ssa-scan'],
                               'text': 'field %s is written only by %s (%s)' % (f, ', '.join(funcs), '; '.join(bad[f][:5])), 'where': src, 'models': [], 'traces': [], 'results': ['unsat' if not bad[f] else 'sat']}
    return out


def errwf_scan(prog):
    """static check behind the `well-formed error` fact used at type assertions on error values: every conversion of a pointer into the
    interface type `error` anywhere in the module converts a fresh allocation (the address of a composite literal / new), or produces a
    value that is only compared.  One obligation per conversion site, named by function and ordinal."""
    out = {'fn': '@errwf', 'status': 'ok', 'obls': {}, 'assumptions': [], 'inlined': [], 'paths': 0, 'gen_s': 0, 'solve_s': 0, 'error': None}
    def regs(x, acc):
        if isinstance(x, dict):
            if x.get('k') in ('reg', 'param'): acc.append(x['name'])
            else:
                for v in x.values(): regs(v, acc)
        elif isinstance(x, list):
            for v in x: regs(v, acc)
        return acc
    bad = []; nsites = 0
    for name, fn in sorted(prog.funcs.items()):
        if not fn.blocks: continue
        sn = ir_short(prog, name)
        ins_all = [i for b in fn.blocks for i in b['instrs']]
        byname = {i['name']: i for i in ins_all if i.get('name')}
        for i in ins_all:
            if i['op'] != 'MakeInterface' or i.get('type') != 'error' or not str(i['x'].get('type', '')).startswith('*'): continue
            nsites += 1
            src = byname.get(i['x'].get('name')) if i['x'].get('k') == 'reg' else None
            if src and src['op'] == 'Alloc': continue
            if src and src['op'] == 'UnOp' and src.get('unop') == '*' and isinstance(src.get('x'), dict) and src['x'].get('k') == 'global':
                # a package variable of pointer type: fine when every store to it anywhere in the module stores a fresh allocation
                gname = src['x']['name']; stores = []
                for n2, f2 in prog.funcs.items():
                    if not f2.blocks: continue
                    by2 = {j['name']: j for b2 in f2.blocks for j in b2['instrs'] if j.get('name')}
                    for b2 in f2.blocks:
                        for j in b2['instrs']:
                            if j['op'] == 'Store' and isinstance(j.get('addr'), dict) and j['addr'].get('k') == 'global' and j['addr'].get('name') == gname:
                                v = by2.get(j['val'].get('name')) if isinstance(j.get('val'), dict) else None
                                stores.append(bool(v and v['op'] == 'Alloc'))
                if stores and all(stores): continue
            users = [j for j in ins_all if j is not i and j['op'] != 'DebugRef' and i['name'] in regs({a: b for a, b in j.items() if a != 'name'}, [])]
            if users and all(j['op'] == 'BinOp' and j.get('binop') in ('==', '!=') for j in users): continue
            bad.append('%s: operand %s of type %s is not a fresh allocation and the value escapes (%s)' % (sn, i['x'].get('name'), i['x'].get('type'), i.get('pos')))
    # one obligation for the module (a per-site name would vanish with a harmless edit that removes the site)
    out['obls']['@errwf/static/module'] = {'status': 'discharged' if not bad else 'refuted', 'kind': 'errwf', 'instances': max(1, nsites), 'time_s': 0.0, 'backends': ['ssa-scan'],
        'text': 'every conversion of a pointer to the interface type error in the module (%d sites) converts a fresh allocation or yields a value that is only compared: no typed-nil error is created (%s)' % (nsites, '; '.join(bad[:5])),
        'where': 'module', 'models': [], 'traces': [], 'results': ['unsat' if not bad else 'sat']}
    return out


def run_function(name):
    """worker: verify one function; returns plain data"""
    from verify import Verifier
    prog, cs, opts = _G['prog'], _G['cs'], _G['opts']
    if name == '@owned': return owned_scan(prog, cs)
    if name == '@errwf': return errwf_scan(prog)
    v = Verifier(prog, cs, dict(opts))
    t0 = time.time()
    out = {'fn': name, 'status': 'ok', 'obls': {}, 'assumptions': [], 'inlined': [], 'paths': 0, 'gen_s': 0, 'solve_s': 0, 'error': None}
    try:
        v.verify_function(name)
    except Unsupported as e:
        out['status'] = 'unsupported'; out['error'] = str(e)
        return out
    except cparse.ParseError as e:
        out['status'] = 'contract-error'; out['error'] = str(e)
        return out
    except Exception as e:
        out['status'] = 'engine-error'; out['error'] = '%s: %s' % (type(e).__name__, e) + '\n' + traceback.format_exc()[-1500:]
        return out
    out['gen_s'] = time.time() - t0
    t1 = time.time()
    v.solve_all(opts.get('timeout', 10000), opts.get('seed', 0), race=True, jobs=opts.get('inner_jobs', 1))
    out['solve_s'] = time.time() - t1
    agg = {}
    for o in v.obls:
        a = agg.setdefault(o.name, {'kind': o.kind, 'expect': o.expect, 'n': 0, 'results': [], 'time': 0.0, 'backends': set(), 'text': o.text, 'where': o.where, 'models': [], 'traces': []})
        a['n'] += 1; a['results'].append(o.result); a['time'] += o.time; a['backends'].add(o.backend)
        bad = (o.result not in ('unsat', 'skipped')) if o.expect == 'unsat' else False
        if bad:
            if o.model: a['models'].append(o.model)
            a['traces'].append([list(x) for x in o.trace][-40:])
    for nm, a in agg.items():
        if a['kind'] == 'smoke': ok = any(r == 'sat' for r in a['results'])
        elif a['expect'] == 'sat': ok = all(r != 'unsat' for r in a['results'])   # vacuity = the precondition is refuted
        else: ok = all(r == 'unsat' for r in a['results'])
        a['results'] = [r for r in a['results'] if r != 'skipped'] or ['skipped']
        st = 'discharged' if ok else ('refuted' if any(r == 'sat' for r in a['results']) and a['expect'] == 'unsat' else 'undischarged')
        out['obls'][nm] = {'status': st, 'kind': a['kind'], 'instances': a['n'], 'time_s': round(a['time'], 3), 'backends': sorted(a['backends']),
                           'text': a['text'][:300], 'where': a['where'], 'models': a['models'][:2], 'traces': a['traces'][:2],
                           'results': sorted(set(str(r) for r in a['results']))}
    out['assumptions'] = sorted(v.assumptions)
    out['inlined'] = sorted(v.inlined)
    out['paths'] = v.npaths
    return out


def main():
    args = sys.argv[1:]
    if not args:
        print(__doc__); sys.exit(2)
    pid = args.pop(0)
    tier = os.environ.get('VERIF_TIER', 'quick'); repo = '/repo'; update = False; jobs = int(os.environ.get('GOCV_JOBS', '16'))
    only = None
    while args:
        a = args.pop(0)
        if a == '--tier': tier = args.pop(0)
        elif a == '--repo': repo = args.pop(0)
        elif a == '--update-lock': update = True
        elif a == '--jobs': jobs = int(args.pop(0))
        elif a == '--only': only = args.pop(0)
    if tier not in ('quick', 'thorough'): tier = 'quick'
    seed = int(os.environ.get('VERIF_SEED', '0') or 0)
    t0 = time.time()
    prog, cs = load_all(repo)
    load_s = time.time() - t0
    fns = sorted(n for n, c in cs.funcs.items() if c.kind == 'func' and pid in c.properties and not c.trusted)
    if any(pid in o[0] for o in cs.owned) or any(pid in o[0] for o in cs.binds): fns.append('@owned')
    fns.append('@errwf')
    if only: fns = [f for f in fns if only in f]
    trusted = sorted(n for n, c in cs.funcs.items() if c.kind == 'func' and c.trusted)
    externs = sorted(n for n, c in cs.funcs.items() if c.kind in ('extern', 'functype', 'iface'))
    opts = {'timeout': 5000 if tier == 'quick' else 30000, 'seed': seed, 'inner_jobs': 1}
    if tier == 'thorough': opts['overflow'] = True; opts['budget_s'] = 1500
    if os.environ.get('GOCV_NILRECV', '1') != '0': opts['nilrecv'] = True
    _G.update(prog=prog, cs=cs, opts=opts)
    import multiprocessing as mp
    from concurrent.futures import ProcessPoolExecutor, as_completed
    results = []
    if fns:
        outer = max(1, min(len(fns), jobs // 4))
        opts['inner_jobs'] = max(1, jobs // outer)
        ctx = mp.get_context('fork')
        with ProcessPoolExecutor(max_workers=outer, mp_context=ctx) as ex:
            futs = [ex.submit(run_function, f) for f in fns]
            for f in as_completed(futs):
                results.append(f.result())
    results.sort(key=lambda r: r['fn'])
    lock = json.load(open(LOCK)) if os.path.exists(LOCK) else {}
    known = json.load(open(KNOWN)) if os.path.exists(KNOWN) else {'findings': [], 'fixed': []}
    plock = lock.get(pid, {})
    # guard against solver instability and a loaded machine: a locked obligation that the solvers neither discharged nor refuted (unknown)
    # is tried once more - its function is verified again, alone on all cores, with three times the time limit and another seed - before it
    # can count as failing.  An obligation discharged by either run is discharged.
    shaky = sorted(set(r['fn'] for r in results if r['status'] == 'ok' for nm, o in r['obls'].items()
                       if nm in plock and o['status'] == 'undischarged' and 'sat' not in o['results']))
    if shaky and len(shaky) <= 6 and not update:
        opts2 = dict(opts); opts2['timeout'] = opts['timeout'] * 3; opts2['seed'] = seed + 7; opts2['inner_jobs'] = jobs; opts2['budget_s'] = opts.get('budget_s', 150) * 2
        _G.update(opts=opts2)
        byfn = {r['fn']: r for r in results}
        for f in shaky:
            ctx = mp.get_context('fork')
            with ProcessPoolExecutor(max_workers=1, mp_context=ctx) as ex:
                r2 = ex.submit(run_function, f).result()
            if r2['status'] != 'ok': continue
            for nm, o2 in r2['obls'].items():
                o1 = byfn[f]['obls'].get(nm)
                if o1 is not None and o1['status'] != 'discharged' and o2['status'] == 'discharged':
                    o2 = dict(o2); o2['backends'] = sorted(set(o2['backends']) | {'second attempt (3x time limit)'})
                    byfn[f]['obls'][nm] = o2
        _G.update(opts=opts)
    known_names = {k['obligation']: k for k in known.get('findings', []) if k['property'] == pid}
    # ---- verdicts ----
    allobs = {}
    for r in results:
        for nm, o in r['obls'].items(): allobs[nm] = (r, o)
    discharged = [nm for nm, (r, o) in allobs.items() if o['status'] == 'discharged']
    failing = [nm for nm, (r, o) in allobs.items() if o['status'] != 'discharged']
    violations = []; known_hit = []; undecided_new = []; unbound = []; undecided_fns = set()
    broken_fns = {r['fn']: r for r in results if r['status'] != 'ok'}
    for nm in failing:
        r, o = allobs[nm]
        if o['kind'] in ('overflow',) and nm not in plock:
            undecided_new.append(nm); continue
        if nm in known_names:
            known_hit.append(nm); continue
        if nm in plock:
            violations.append((nm, r, o, 'obligation that was discharged on the unchanged tree now fails (%s)' % ','.join(o['results'])))
        elif o['status'] == 'refuted' and o['kind'] not in ('reach', 'smoke', 'reachcall', 'overflow', 'ghost.eval') and any(k.split('/')[0] == nm.split('/')[0] for k in plock):
            # an obligation that did not exist on the unchanged tree (a new path or statement) in a function all of whose obligations were
            # discharged there, refuted by the solver with a counter-model: the function no longer meets its contract
            violations.append((nm, r, o, 'new obligation of a function that was fully verified on the unchanged tree is refuted by the solver (%s)' % ','.join(o['results'])))
        else:
            undecided_new.append(nm)
    for nm in plock:
        if nm in allobs: continue
        fn = nm.split('/')[0]
        if fn in broken_fns:
            # the contract no longer binds to the code (renamed local, new loop without invariant, construct outside the supported subset):
            # nothing is refuted, the function is UNDECIDED - reported loudly, never as a violation (a failed proof is not a counterexample)
            undecided_fns.add(fn); unbound.append(nm)
        elif prog is not None and fn not in ('@owned', '@errwf') and not any(ir_short(prog, f) == fn.split(' @')[0] for f in prog.funcs):
            unbound.append(nm)
        elif fn not in [r['fn'] for r in results]:
            unbound.append(nm)
        else:
            # obligation vanished although the function still verifies: code shape changed (e.g. statement removed)
            unbound.append(nm)
    # one violation line per function is enough; group
    wall = time.time() - t0
    evdir = os.path.join(ROOT, 'evidence') if os.path.realpath(repo) == '/repo' else os.path.join(os.environ.get('GOCV_TMP', '/var/tmp'), 'gocv-evidence')
    os.makedirs(evdir, exist_ok=True)
    if update:
        # new names are claimed only when they discharge well inside the time limit; a name that was claimed before stays claimed when it discharges
        lock[pid] = {nm: 'discharged' for nm in sorted(discharged) if nm in plock or allobs[nm][1]['time_s'] <= (opts['timeout'] / 1000.0) * 0.5 * max(1, allobs[nm][1]['instances'])}
        json.dump(lock, open(LOCK, 'w'), indent=0, sort_keys=True)
        print('lock updated: %d obligations for %s' % (len(lock[pid]), pid))
        plock = lock[pid]
    claimed = [nm for nm in plock if nm in allobs]
    claimed_ok = [nm for nm in claimed if allobs[nm][1]['status'] == 'discharged']
    by_backend = {}
    for nm in claimed_ok:
        for b in allobs[nm][1]['backends']: by_backend[b] = by_backend.get(b, 0) + 1
    samples = []
    for nm in sorted(claimed_ok)[:: max(1, len(claimed_ok) // 6)][:6]:
        r, o = allobs[nm]
        samples.append({'obligation': nm, 'kind': o['kind'], 'clause': o['text'], 'path_instances': o['instances'], 'result': 'unsat (discharged)', 'solver_s': o['time_s'], 'backends': o['backends']})
    assumptions = set()
    for r in results: assumptions.update(r['assumptions'])
    assumptions.update('trusted contract (body not verified): %s' % n for n in trusted)
    assumptions.update('assumed contract of external function/type: %s' % n for n in externs)
    evid = {
        'property_id': pid, 'tier': tier, 'seed': seed, 'level': 'proof',
        'coverage': {
            'obligations': len(claimed), 'discharged': len(claimed_ok),
            'checker_cmd': 'python3-vt gocv/check.py %s --tier %s' % (pid, tier),
            'trusted_base': ['gocv VC generator (this repository, unverified; guarded by the must-fail selftest corpus)', 'go/ssa + go/types (x/tools v0.29.0)', 'z3 5.1.0 / z3 4.8.12 / cvc5 1.0 (an obligation counts as discharged on one unsat)',
                             'paper lemmas of DESIGN.md Appendix A (lock invariant, publish/re-check)'] + sorted(assumptions)[:400],
            'samples': samples,
            'functions_under_contract': [{'function': r['fn'], 'status': r['status'], 'obligations': len(r['obls']), 'discharged': sum(1 for o in r['obls'].values() if o['status'] == 'discharged'),
                                          'paths': r['paths'], 'gen_s': round(r['gen_s'], 2), 'solve_s': round(r['solve_s'], 2), 'inlined_helpers': r['inlined'], 'error': r['error']} for r in results],
            'by_backend': by_backend,
            'solver_time_s': round(sum(o['time_s'] for r in results for o in r['obls'].values()), 2),
            'max_obligation_s': max([o['time_s'] / max(1, o['instances']) for r in results for o in r['obls'].values()] + [0]),
            'all_generated_obligations': len(allobs), 'all_discharged': len(discharged),
            'known_findings': sorted(known_hit), 'undecided_new': sorted(undecided_new)[:200], 'contract_unbound': sorted(unbound)[:200], 'undecided_functions': sorted(undecided_fns),
            'vacuity': {'reach_entry_sat': sum(1 for nm, (r, o) in allobs.items() if o['kind'] == 'reach' and o['status'] == 'discharged'),
                        'smoke_return_sat': sum(1 for nm, (r, o) in allobs.items() if o['kind'] == 'smoke' and o['status'] == 'discharged')},
            'integers': 'int/int64 mathematical (no wrap); narrower and unsigned types wrap explicitly',
            'not_decided': NOT_DECIDED.get(pid, []),
            'explanation': 'every obligation is a z3 query generated from the go/ssa of /repo (tags: verif) and the //@ contracts in /repo/*_verif.go; tier U only (loops cut by invariants, unbounded heap)',
        },
        'assumptions': sorted(assumptions), 'wall_s': round(wall, 2), 'violations': len(violations),
    }
    json.dump(evid, open(os.path.join(evdir, pid + '.json'), 'w'), indent=1)
    for nm in sorted(known_hit):
        k = known_names[nm]
        print('KNOWN-FINDING: property=%s %s — %s' % (pid, nm, k.get('what', '')))
    for nm in sorted(undecided_new)[:20]:
        print('warning: undecided-new obligation (not claimed, not a violation): %s [%s]' % (nm, allobs[nm][1]['status']))
    for nm in sorted(unbound)[:20]:
        print('warning: contract-unbound (locked obligation no longer generated): %s' % nm)
    for r in results:
        if r['status'] != 'ok': print('UNDECIDED property=%s function=%s: the contract no longer binds to the code (%s: %s); its obligations were not checked' % (pid, r['fn'], r['status'], (r['error'] or '').split('\n')[0][:300]))
    print('%s %s: %d functions, %d/%d claimed obligations discharged (%d generated, %d discharged), %.1fs' % (pid, tier, len(fns), len(claimed_ok), len(claimed), len(allobs), len(discharged), wall))
    if not violations:
        if not claimed:
            print('error: no claimed obligation was generated for %s (vacuous check)' % pid)
            sys.exit(3 if not update else 0)
        sys.exit(0)
    # ---- report violations, with replay where a driver exists ----
    import replay
    rdir = os.path.join(ROOT if os.path.realpath(repo) == '/repo' else os.path.join(os.environ.get('GOCV_TMP', '/var/tmp'), 'gocv-evidence'), 'replays', pid); os.makedirs(rdir, exist_ok=True)
    seen_fn = set()
    for nm, r, o, why in violations:
        fnm = r['fn']
        path = os.path.join(rdir, re.sub(r'[^A-Za-z0-9_.#-]+', '_', nm) + '.json')
        rep = {'property': pid, 'obligation': nm, 'function': fnm, 'why': why, 'clause': o.get('text'), 'where': o.get('where'), 'solver_results': o.get('results'),
               'models': o.get('models'), 'failing_paths': o.get('traces'), 'tier': 'U', 'repo': repo}
        reproduced = replay.try_replay(pid, nm, rep, repo)
        rep['replay'] = reproduced
        json.dump(rep, open(path, 'w'), indent=1)
        if fnm in seen_fn and not (reproduced and reproduced.get('reproduced')): continue
        seen_fn.add(fnm)
        suffix = '' if reproduced and reproduced.get('reproduced') else ' no-failing-input-found'
        print('VIOLATION property=%s replay=%s%s' % (pid, path, suffix))
        print('  obligation %s: %s' % (nm, why[:300]))
    sys.exit(1)


def ir_short(prog, name):
    return re.sub(r'[\w.\-]+(?:/[\w.\-]+)*/', '', name).replace('netpoll.', '')


NOT_DECIDED = {}
try:
    NOT_DECIDED = json.load(open(os.path.join(ROOT, 'gocv', 'not_decided.json')))
except Exception:
    pass

if __name__ == '__main__':
    main()
