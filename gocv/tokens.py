# gocv token rules: linear, thread-local tokens on declared lock words (DESIGN.md §6.1).
#   //@ lockword T.f[k] token G acquire A B release R [stop A2 B2] [free-on-store-by-owner]
#   //@ onceword T.f token G            (first AddT(+1) == 1 yields the Once token G)
#   //@ monotone T.f                    (values never decrease; 0 is never written back)
#   //@ nonzero T.f[k]                  (every write stores a non-zero value, CAS only from 0)
# The atomic hook turns every sync/atomic operation on a declared word into token updates and obligations.
import re, z3
from z3 import IntVal, BoolVal, And, Or, Not, Implies, If
from vals import *


class Rule:
    def __init__(s): s.key = None; s.idx = None; s.kind = None; s.token = None; s.acq = None; s.rel = None; s.stop = None; s.also = []; s.inv = None; s.src = ''


def parse_rules(e):
    rules = []
    for kw, text, src in e.c.lockwords:
        r = Rule(); r.kind = kw; r.src = src
        toks = text.split()
        w = toks[0]
        m = re.match(r'([\w.]+)(?:\[(\w+)\])?$', w)
        if not m: raise Unsupported('%s: bad word %r' % (src, w))
        tn, fn = m.group(1).rsplit('.', 1)
        full = [t for t in e.p.types if e.match_type(t, tn) and e.p.desc(t).get('kind') == 'named']
        if not full: raise Unsupported('%s: unknown type %s' % (src, tn))
        r.key = e.skey(full[0]) + '.' + fn
        r.stype = full[0]
        if m.group(2) is not None:
            try: r.idx = int(m.group(2))
            except ValueError:
                c = e.const(m.group(2)); r.idx = c[0].as_long()
        i = 1
        while i < len(toks):
            t = toks[i]
            if t == 'token': r.token = toks[i + 1]; i += 2
            elif t == 'acquire': r.acq = (int(toks[i + 1]), int(toks[i + 2])); i += 3
            elif t == 'release': r.rel = int(toks[i + 1]); i += 2
            elif t == 'stop': r.stop = (int(toks[i + 1]), int(toks[i + 2])); i += 3
            elif t == 'inv': r.inv = toks[i + 1]; i += 2
            elif t == 'also': r.also.append((int(toks[i + 1]), int(toks[i + 2]))); i += 3
            else: raise Unsupported('%s: bad lockword clause %r' % (src, t))
        rules.append(r)
    return rules


def find_rule(e, loc, st=None):
    sym = False
    for r in e.token_rules:
        if loc.key != r.key: continue
        if r.idx is None: return r
        if len(loc.idx) >= 2:
            k = z3.simplify(loc.idx[1])
            if z3.is_int_value(k):
                if k.as_long() == r.idx: return r
            else:
                # symbolic index: decided by the path condition?
                if st is not None and not e.feasible(st, k != r.idx): return r
                sym = True
    return 'symbolic' if sym else None


def tok_loc(e, r, loc):
    return (e.skey(r.stype) + '.' + r.token, (loc.idx[0],))


def hook(e, fr, st, kind, loc, new, old, ins, site):
    if not hasattr(e, 'token_rules'): e.token_rules = parse_rules(e)
    r = find_rule(e, loc, st)
    if r is None: return
    if r == 'symbolic':
        if kind != 'load':
            e.oblige(st, fr, 'token.word', 'symbolic-index', BoolVal(False), site, text='atomic write to a lock-word array with a symbolic index')
        return
    cv = lambda x: z3.simplify(x) if z3.is_expr(x) else x
    if r.kind == 'lockword':
        tk, tidx = tok_loc(e, r, loc)
        held = st.rd(tk, tidx, B)
        if kind == 'load':
            # rely: while I hold the token the word has the held value
            v = e.load_loc(st, loc)
            st.assume(Implies(held, v == r.acq[1]))
            return
        if kind == 'pre':
            cur = e.load_loc(st, loc)
            st.assume(Implies(held, cur == r.acq[1]))
            return
        if kind == 'cas':
            frm, to = cv(old), cv(new)
            if z3.is_int_value(frm) and z3.is_int_value(to):
                f, t = frm.as_long(), to.as_long()
                if (f, t) == r.acq:
                    st.wr(tk, tidx, BoolVal(True), B)
                    st.events.append(('acquire', r.token, loc.idx[0]))
                    if r.inv:
                        # lock invariant: holds whenever the lock is free; the acquirer may assume it and must restore it before releasing
                        import cparse as _cp
                        e.assumptions.add('lock invariant %s of %s: assumed at acquire, proved at every release' % (r.inv, r.key))
                        env = {'st': st, 'old': None, 'vars': {'lk!c': (loc.idx[0], '*' + r.stype)}, 'fr': None}
                        st.assume(e.ev_bool(('call', ('id', r.inv), [('id', 'lk!c')]), env))
                    return
                if r.stop and (f, t) == r.stop:
                    return
                if (f, t) in r.also and r.acq[1] not in (f, t):
                    return   # a declared transition between values other than the held one: cannot take or release anybody's token
            e.oblige(st, fr, 'token.word', r.token, BoolVal(False), site, text='CAS on lock word %s is neither the declared acquire nor stop transition' % r.key)
            return
        if kind == 'casfail':
            return
        if kind == 'store':
            v = cv(new)
            if z3.is_int_value(v) and v.as_long() == r.rel:
                sealed_key = e.skey(r.stype) + '.sealed_' + r.token
                sealed = st.rd(sealed_key, tidx, B) if (r.stype and ('%s.sealed_%s' % (e.skey(r.stype).split('.')[-1], r.token)) in e.c.ghostfields) else BoolVal(False)
                e.oblige(st, fr, 'token.release', r.token, And(held, Not(sealed)), site, text='releasing store on %s requires holding the %s token (not sealed)' % (r.key, r.token))
                if r.inv:
                    env = {'st': st, 'old': None, 'vars': {'lk!c': (loc.idx[0], '*' + r.stype)}, 'fr': None}
                    import cparse as _cp
                    for gi_, part_ in enumerate(e.split_conj(('call', ('id', r.inv), [('id', 'lk!c')]))):
                        e.oblige(st, fr, 'token.inv', '%s.%d' % (r.inv, gi_ + 1), e.ev_bool(part_, env), site, text='lock invariant %s restored before releasing %s: %s' % (r.inv, r.key, _cp.show(part_)))
                st.wr(tk, tidx, BoolVal(False), B)
                st.events.append(('release', r.token, loc.idx[0]))
                return
            e.oblige(st, fr, 'token.word', r.token, BoolVal(False), site, text='store to lock word %s is not the declared release' % r.key)
            return
        if kind == 'add':
            e.oblige(st, fr, 'token.word', r.token, BoolVal(False), site, text='Add on lock word %s' % r.key)
            return
    if kind == 'pre': return
    if r.kind == 'onceword':
        tk, tidx = tok_loc(e, r, loc)
        if kind == 'add':
            # first transition (result == 1) yields the Once token
            st.wr(tk, tidx, new == 1, B)
            return
        if kind in ('store', 'cas'):
            v = cv(new)
            if z3.is_int_value(v) and v.as_long() == 0:
                e.oblige(st, fr, 'token.once', r.token, BoolVal(False), site, text='once word %s is written back to 0' % r.key)
            return
    if r.kind == 'nonzero':
        if kind == 'store':
            e.oblige(st, fr, 'token.nonzero', r.key.split('.')[-1], new != 0, site, text='%s must never be written back to 0' % r.key)
        elif kind == 'cas':
            e.oblige(st, fr, 'token.nonzero', r.key.split('.')[-1], And(old == 0, new != 0), site, text='%s may only be CASed from 0 to a non-zero value' % r.key)
        elif kind == 'add':
            e.oblige(st, fr, 'token.nonzero', r.key.split('.')[-1], BoolVal(False), site, text='Add on %s' % r.key)
        return
    if r.kind == 'monotone':
        if kind == 'store':
            cur = e.load_loc(st, loc)
            e.oblige(st, fr, 'token.monotone', r.key.split('.')[-1], new >= cur, site, text='%s never decreases' % r.key)
        elif kind == 'cas':
            e.oblige(st, fr, 'token.monotone', r.key.split('.')[-1], new >= old, site, text='%s never decreases' % r.key)
        return


def install(e):
    e.atomic_hook = lambda fr, st, kind, loc, new, old, ins, site: hook(e, fr, st, kind, loc, new, old, ins, site)
