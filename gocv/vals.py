# gocv symbolic values, heap and path state.
import z3
from z3 import Int, IntVal, Bool, BoolVal, Real, RealVal, And, Or, Not, Implies, If, Select, Store, K, Array, IntSort, BoolSort, RealSort, ArraySort
from ir import short

I = IntSort(); B = BoolSort(); R = RealSort()
_cnt = [0]


def fresh_name(p):
    _cnt[0] += 1
    return '%s!%d' % (p, _cnt[0])


def fint(p): return Int(fresh_name(p))
def fbool(p): return Bool(fresh_name(p))
def freal(p): return Real(fresh_name(p))


class SliceV:
    __slots__ = ('arr', 'base', 'len', 'cap', 'et')
    def __init__(s, arr, base, ln, cap, et): s.arr, s.base, s.len, s.cap, s.et = arr, base, ln, cap, et
    def __repr__(s): return 'SliceV(%s,%s,%s,%s)' % (s.arr, s.base, s.len, s.cap)


class StrV:
    __slots__ = ('sid', 'slen', 'const')
    def __init__(s, sid, slen, const=None): s.sid, s.slen, s.const = sid, slen, const
    def __repr__(s): return 'StrV(%r)' % (s.const if s.const is not None else s.sid)


class IfaceV:
    __slots__ = ('tag', 'val', 'box')
    def __init__(s, tag, val, box=None): s.tag, s.val, s.box = tag, val, box
    def __repr__(s): return 'IfaceV(%s,%s)' % (s.tag, s.val)


class StructV:
    __slots__ = ('t', 'f')
    def __init__(s, t, f): s.t, s.f = t, f
    def __repr__(s): return 'StructV(%s)' % short(s.t)


class TupleV:
    __slots__ = ('v',)
    def __init__(s, v): s.v = list(v)
    def __repr__(s): return 'TupleV(%r)' % (s.v,)


class FuncV:
    """function value: z3 id plus, when statically known, the function name and its bindings"""
    __slots__ = ('id', 'name', 'bind', 'origin', 't')
    def __init__(s, id, name=None, bind=None, origin=None, t=None): s.id, s.name, s.bind, s.origin, s.t = id, name, bind, origin, t
    def __repr__(s): return 'FuncV(%s,%s)' % (s.name, s.origin)


class Loc:
    """address of a non-struct location: heap key + index terms; t = type stored there.
    arrdim: the location is an array [N]T and still lacks its last index."""
    __slots__ = ('key', 'idx', 't', 'arrlen')
    def __init__(s, key, idx, t, arrlen=None): s.key, s.idx, s.t, s.arrlen = key, tuple(idx), t, arrlen
    def __repr__(s): return 'Loc(%s%s)' % (s.key, list(s.idx))


class Unknown:
    """value the engine does not model (opaque); any use that matters raises"""
    def __init__(s, why): s.why = why
    def __repr__(s): return 'Unknown(%s)' % s.why


class Unsupported(Exception):
    pass


class State:
    def __init__(s):
        s.heap = {}          # key -> z3 array / const
        s.sorts = {}         # key -> (nidx, valsort)  (shared, append-only)
        s.pc = []
        s.alloc = Int('alloc!0')
        s.writes = []        # (key, idx) leaf writes; idx None = whole key havoc
        s.fresh = []         # refs allocated on this path (z3 terms)
        s.trace = []         # (func short, block idx)
        s.seen = set()       # ids of terms that already got their type facts
        s.closures = {}      # concrete closure id -> FuncV
        s.notes = []
        s.flags = {}         # path-local ghost flags (python-level, name -> z3 Bool)
        s.events = []        # path-local event log (for pattern obligations)
        s.fresh_on_create = set()   # keys havocked before they were first materialised

    def copy(s):
        n = State.__new__(State)
        n.heap = dict(s.heap); n.sorts = s.sorts; n.pc = list(s.pc); n.alloc = s.alloc
        n.writes = list(s.writes); n.fresh = list(s.fresh); n.trace = list(s.trace); n.seen = set(s.seen)
        n.closures = dict(s.closures); n.notes = list(s.notes); n.flags = dict(s.flags); n.events = list(s.events)
        n.fresh_on_create = set(s.fresh_on_create)
        return n

    # ---- raw arrays ----
    def arr(s, key, nidx, sort):
        if key not in s.sorts:
            s.sorts[key] = (nidx, sort)
        if key not in s.heap:
            nidx, sort = s.sorts[key]
            if key in s.fresh_on_create or (key.startswith('mem:') and 'mem:*' in s.fresh_on_create):
                s.heap[key] = s._mk(fresh_name(key), nidx, sort)
            else:
                s.heap[key] = s._mk(key + '@0', nidx, sort)
        return s.heap[key]

    @staticmethod
    def _mk(name, nidx, sort):
        srt = sort
        for _ in range(nidx): srt = ArraySort(I, srt)
        return z3.Const('H!' + name, srt)

    def rd(s, key, idx, sort=I):
        a = s.arr(key, len(idx), sort)
        for i in idx: a = Select(a, i)
        return a

    def wr(s, key, idx, v, sort=I, log=True):
        a = s.arr(key, len(idx), sort)
        s.heap[key] = s._store(a, list(idx), v)
        if log: s.writes.append((key, tuple(idx)))

    @staticmethod
    def _store(a, idx, v):
        if not idx: return v
        if len(idx) == 1: return Store(a, idx[0], v)
        return Store(a, idx[0], State._store(Select(a, idx[0]), idx[1:], v))

    def havoc(s, key, log=True):
        if key not in s.sorts or key not in s.heap:
            # not materialised yet on this path: remember that its first use must see a fresh array
            s.fresh_on_create.add(key)
            s.heap.pop(key, None)
            if log: s.writes.append((key, None))
            return
        nidx, sort = s.sorts[key]
        s.heap[key] = s._mk(fresh_name(key), nidx, sort)
        if log: s.writes.append((key, None))

    def havoc_at(s, key, idx, log=True):
        if key not in s.sorts:
            s.fresh_on_create.add(key)
            if log: s.writes.append((key, tuple(idx)))
            return
        nidx, sort = s.sorts[key]
        v = z3.Const(fresh_name('hv!' + key), sort) if len(idx) == nidx else None
        if v is None:
            srt = sort
            for _ in range(nidx - len(idx)): srt = ArraySort(I, srt)
            v = z3.Const(fresh_name('hv!' + key), srt)
        s.heap[key] = s._store(s.arr(key, nidx, sort), list(idx), v)
        if log: s.writes.append((key, tuple(idx)))

    def assume(s, f):
        if f is True or (z3.is_bool(f) and z3.is_true(f)):
            return
        if z3.is_expr(f) and z3.is_and(f):
            # keep conjuncts separate: the quantifier-free ones stay usable by the cheap feasibility checks
            for a in f.children(): s.assume(a)
            return
        s.pc.append(f)

    def newref(s, hint='obj'):
        na = Int(fresh_name('alloc'))
        s.pc.append(na > s.alloc)
        s.pc.append(na > 0)
        s.alloc = na
        s.fresh.append(na)
        return na

    def bump_alloc(s):
        na = Int(fresh_name('alloc'))
        s.pc.append(na >= s.alloc)
        s.alloc = na


class PathEnd(Exception):
    pass


class Frame:
    def __init__(s, fn, regs, k, kpanic, depth, parent=None):
        s.fn = fn; s.regs = regs; s.names = {}; s.defers = []; s.k = k; s.kpanic = kpanic; s.depth = depth
        s.parent = parent; s.inloop = {}    # header -> True when cut
        s.entry = None                        # entry State snapshot (for old())
        s.entry_env = None
        s.contract = None
        s.unroll = {}

    def fork(s):
        n = Frame(s.fn, dict(s.regs), s.k, s.kpanic, s.depth, s.parent)
        n.names = dict(s.names); n.defers = list(s.defers); n.inloop = dict(s.inloop)
        n.entry = s.entry; n.entry_env = s.entry_env; n.contract = s.contract; n.unroll = dict(s.unroll)
        return n


class Obl:
    __slots__ = ('name', 'kind', 'pc', 'goal', 'trace', 'where', 'text', 'result', 'time', 'backend', 'model', 'expect')
    def __init__(s, name, kind, pc, goal, trace, where, text=''):
        s.name, s.kind, s.pc, s.goal, s.trace, s.where, s.text = name, kind, pc, goal, trace, where, text
        s.result = None; s.time = 0.0; s.backend = ''; s.model = None; s.expect = 'unsat'


