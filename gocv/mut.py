#!/usr/bin/env python3
# dev helper: apply a textual mutation to a scratch copy of /repo and verify named functions there
# usage: mut.py <file> <old> <new> [--nth k] -- func...
import sys, os, subprocess, shutil, tempfile
args = sys.argv[1:]
f, old, new = args[:3]; rest = args[3:]
nth = 1
if rest and rest[0] == '--nth': nth = int(rest[1]); rest = rest[2:]
if rest and rest[0] == '--': rest = rest[1:]
d = tempfile.mkdtemp(prefix='gocv-m-', dir='/var/tmp')
try:
    subprocess.check_call(['rsync', '-a', '--exclude', '.git', '/repo/', d + '/'])
    p = os.path.join(d, f); s = open(p).read()
    idx = -1
    for _ in range(nth):
        idx = s.index(old, idx + 1)
    s = s[:idx] + new + s[idx + len(old):]
    open(p, 'w').write(s)
    r = subprocess.run(['go', 'build', './...'], cwd=d, env=dict(os.environ, GOFLAGS='-mod=mod', GOPROXY='off', GOSUMDB='off', GOTOOLCHAIN='local'), stderr=subprocess.PIPE)
    if r.returncode: print('MUTANT DOES NOT COMPILE', r.stderr.decode()[:500]); sys.exit(2)
    subprocess.call([sys.executable, os.path.join(os.path.dirname(os.path.abspath(__file__)), 'dev.py'), '--repo', d] + rest)
finally:
    shutil.rmtree(d, ignore_errors=True)
