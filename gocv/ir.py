# gocv IR: loads the JSON emitted by bin/ssadump (typed go/ssa of /repo's working tree),
# offers type helpers and CFG analyses (dominators, natural loops, loop ordinals).
import json, os, subprocess, sys, functools

HERE = os.path.dirname(os.path.abspath(__file__))
ROOT = os.path.dirname(HERE)
PKG = 'github.com/cloudwego/netpoll'
GOENV = dict(os.environ, GOFLAGS='-mod=mod', GOPROXY='off', GOSUMDB='off', GOTOOLCHAIN='local')


def short(s):
    """strip the module path so names read netpoll.X / mux.X"""
    return s.replace('github.com/cloudwego/netpoll/internal/', '').replace('github.com/cloudwego/netpoll/', '').replace('github.com/cloudwego/', '')


class Program:
    def __init__(self, data):
        self.types = data['types']
        self.methods = data['methods']
        self.globals = {g['name']: g['type'] for g in data['globals']}
        self.consts = data.get('consts', [])
        self.funcs = {}
        self.byshort = {}
        for f in data['funcs']:
            fn = Func(self, f)
            self.funcs[fn.name] = fn
            self.byshort[fn.short] = fn
        self._tid = {}
        for t in sorted(self.types):
            self._tid[t] = len(self._tid) + 1

    # ---- types ----
    def desc(self, t):
        return self.types.get(t) or {'kind': 'other'}

    def under(self, t):
        d = self.desc(t)
        seen = 0
        while d.get('kind') == 'named' and seen < 10:
            t = d['underlying']; d = self.desc(t); seen += 1
        return t, d

    def kind(self, t):
        """coarse kind: int bool string float ptr slice array struct iface func chan map tuple unsafeptr other"""
        if t is None or t == '':
            return 'none'
        _, d = self.under(t)
        k = d.get('kind')
        if k == 'basic':
            c = d.get('class')
            return {'int': 'int', 'bool': 'bool', 'string': 'string', 'float': 'float', 'unsafeptr': 'unsafeptr', 'nil': 'nil'}.get(c, 'other')
        return {'pointer': 'ptr', 'slice': 'slice', 'array': 'array', 'struct': 'struct', 'interface': 'iface', 'func': 'func',
                'chan': 'chan', 'map': 'map', 'tuple': 'tuple'}.get(k, 'other')

    def intinfo(self, t):
        _, d = self.under(t)
        return d.get('bits', 64), d.get('signed', True)

    def elem(self, t):
        _, d = self.under(t)
        return d.get('elem')

    def fields(self, t):
        _, d = self.under(t)
        return d.get('fields', [])

    def field(self, t, name):
        for f in self.fields(t):
            if f['name'] == name:
                return f
        return None

    def find_field_path(self, t, name):
        """resolve a (possibly promoted) field: returns list of field dicts from t to the field"""
        for f in self.fields(t):
            if f['name'] == name:
                return [f]
        for f in self.fields(t):
            if f['embedded']:
                ft = f['type']
                if self.kind(ft) == 'ptr':
                    continue
                p = self.find_field_path(ft, name)
                if p:
                    return [f] + p
        return None

    def typeid(self, t):
        """stable small int per dynamic type string (interface tags); 0 is the nil interface"""
        if t not in self._tid:
            self._tid[t] = len(self._tid) + 1
        return self._tid[t]

    def typename_of_id(self, i):
        for k, v in self._tid.items():
            if v == i:
                return k
        return None

    def method(self, t, name):
        m = self.methods.get(t)
        if m and name in m:
            return m[name]
        return None

    def implements(self, t, iface):
        _, d = self.under(iface)
        ms = self.methods.get(t)
        if ms is None:
            return None
        return all(m in ms for m in d.get('methods', []))


class Func:
    def __init__(self, prog, f):
        self.prog = prog
        self.j = f
        self.name = f['name']
        self.short = short(self.name)
        self.params = f['params']
        self.freevars = f['freevars']
        self.results = f['results']
        self.blocks = f['blocks']
        self.pos = f['pos']
        self.parent = f.get('parent')
        self.synthetic = f.get('synthetic', '')
        self._loops = None
        # calls through a function-typed struct field are named after the field (dyn.<field>) so that ordinals survive unrelated edits
        defs = {i['name']: i for b in self.blocks for i in b['instrs'] if i.get('name')}
        for b in self.blocks:
            for i in b['instrs']:
                if i['op'] in ('Call', 'Go', 'Defer') and 'callee' in i and i['callee'].get('k') == 'reg':
                    d = defs.get(i['callee']['name'])
                    if d and d['op'] == 'UnOp' and d.get('unop') == '*' and d['x'].get('k') == 'reg':
                        d2 = defs.get(d['x']['name'])
                        if d2 and d2['op'] == 'FieldAddr': i['dynname'] = 'dyn.' + d2['field']

    # ---- CFG ----
    def dominators(self):
        n = len(self.blocks)
        dom = [set(range(n)) for _ in range(n)]
        dom[0] = {0}
        changed = True
        while changed:
            changed = False
            for b in self.blocks[1:]:
                i = b['index']
                ps = [dom[p] for p in b['preds']]
                new = set.intersection(*ps) if ps else set()
                new = new | {i}
                if new != dom[i]:
                    dom[i] = new; changed = True
        return dom

    def loops(self):
        """natural loops: list of dicts {header, body(set of block idx), ordinal}, ordinal in source order"""
        if self._loops is not None:
            return self._loops
        dom = self.dominators()
        byhead = {}
        for b in self.blocks:
            for s in b['succs']:
                if s in dom[b['index']]:  # back edge b -> s
                    body = byhead.setdefault(s, {s})
                    stack = [b['index']]
                    while stack:
                        x = stack.pop()
                        if x in body:
                            continue
                        body.add(x)
                        stack.extend(self.blocks[x]['preds'])
        def minline(body):
            ls = []
            for x in body:
                for ins in self.blocks[x]['instrs']:
                    p = ins.get('pos')
                    if p:
                        ls.append(int(p.rsplit(':', 1)[1]))
            return min(ls) if ls else 10 ** 9
        loops = [{'header': h, 'body': body, 'line': minline(body)} for h, body in byhead.items()]
        loops.sort(key=lambda l: (l['line'], l['header']))
        for i, l in enumerate(loops):
            l['ordinal'] = i + 1
        self._loops = loops
        return loops

    def loop_of_header(self, h):
        for l in self.loops():
            if l['header'] == h:
                return l
        return None


def load_program(repo='/repo', tags='verif', cache=None):
    binp = os.path.join(ROOT, 'bin', 'ssadump')
    if not os.path.exists(binp):
        subprocess.check_call(['go', 'build', '-o', binp, '.'], cwd=os.path.join(ROOT, 'ssadump'), env=GOENV)
    p = subprocess.run([binp, repo, tags], stdout=subprocess.PIPE, stderr=subprocess.PIPE, env=GOENV)
    if p.returncode != 0:
        raise RuntimeError('ssadump failed on %s:\n%s' % (repo, p.stderr.decode()[-4000:]))
    data = json.loads(p.stdout)
    return Program(data)
