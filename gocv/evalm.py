# gocv contract expression evaluation over a symbolic state.
import z3
from z3 import Int, IntVal, Bool, BoolVal, RealVal, And, Or, Not, Implies, If, Select, Store, K, ForAll, Exists
from ir import short
from vals import *
import cparse


class EvalMixin:
    def mkenv(self, fr, st, extra=None):
        vars = {}
        f = fr
        top = fr
        while top.parent is not None: top = top.parent
        env = {'st': st, 'old': top.entry_env, 'vars': vars, 'fr': fr}
        if extra: vars.update(extra)
        return env

    def ptr_elem(self, t):
        if t is None: return None
        if t.startswith('*') and t[1:] in self.p.types or (t.startswith('*') and self.p.desc(t).get('kind') is None):
            return t[1:]
        e = self.p.elem(t)
        return e

    def lookup(self, name, env):
        if name in env['vars']:
            return env['vars'][name]
        fr = env.get('fr')
        if fr is not None and name in fr.names:
            e = fr.names[name]
            if isinstance(e[0], str) and e[0] == 'addr':
                return (self.load_loc(env['st'], e[1]) if isinstance(e[1], Loc) else e[1], e[2])
            return e
        if name in self.c.ghostglobals:
            t = self.c.ghostglobals[name]
            srt = R if t == 'real' else (B if t == 'bool' else I)
            if t not in ('int', 'bool', 'real'): t = self.resolve_type(t)
            return (env['st'].rd('ghost:' + name, (), srt), t)
        if name in self.c.ghostmaps:
            t = self.c.ghostmaps[name]
            srt = R if t == 'real' else (B if t == 'bool' else I)
            if t not in ('int', 'bool', 'real'): t = self.resolve_type(t)
            return (('ghostmap', 'ghost:' + name, srt, t, env['st']), 'ghostmap')   # the map of *this* state: old(m)[i] reads the old map at a new index
        c = self.const(name)
        if c is not None: return c
        for g, gt in self.p.globals.items():
            if self.shortfn(g) == name:
                a = self.global_addr(g, gt)
                if isinstance(a, Loc) and a.arrlen is None:
                    return (self.load_loc(env['st'], a, facts=False), gt)
                return (a, '*' + gt)
        if '.' in name:
            # a package-qualified global of another package (e.g. context.DeadlineExceeded) that the code refers to
            if not hasattr(self, '_extglobals'):
                self._extglobals = {}
                def scan(x):
                    if isinstance(x, dict):
                        if x.get('k') == 'global' and 'elem' in x: self._extglobals[self.shortfn(x['name'])] = (x['name'], x['elem'])
                        else:
                            for v in x.values(): scan(v)
                    elif isinstance(x, list):
                        for v in x: scan(v)
                for f in self.p.funcs.values():
                    for b in f.blocks: scan(b['instrs'])
            eg = self._extglobals.get(name)
            if eg is not None:
                a = self.global_addr(eg[0], eg[1])
                if isinstance(a, Loc) and a.arrlen is None:
                    return (self.load_loc(env['st'], a, facts=False), eg[1])
                return (a, '*' + eg[1])
        raise Unsupported('unknown identifier %r in contract' % name)

    def const(self, name):
        if not hasattr(self, '_consts'):
            self._consts = {}
            for cj in sorted(self.p_consts, key=lambda c: (0 if '/mux.' in c['name'] or '/runner.' in c['name'] else 1)):
                sn = self.shortfn(cj['name'])
                self._consts[sn] = cj
                self._consts[sn.split('.')[-1]] = cj   # the main package wins name clashes (e.g. mux.closing / netpoll.closing)
        cj = self._consts.get(name)
        if cj is None: return None
        v = cj.get('val')
        k = self.K(cj['type'])
        if isinstance(v, bool): return (BoolVal(v), cj['type'])
        if k == 'string': return (self.strc(v), cj['type'])
        try:
            return (IntVal(int(v)), cj['type'])
        except Exception:
            return None

    def ast_type(self, a):
        """turn an expression AST that denotes a type (e.g. *exception) into a type string"""
        if a[0] == 'id': return a[1]
        if a[0] == 'un' and a[1] == '*': return '*' + self.ast_type(a[2])
        if a[0] == 'field': return self.ast_type(a[1]) + '.' + a[2]
        raise Unsupported('not a type: %r' % (a,))

    def ev_bool(self, ast, env):
        v, t = self.ev(ast, env)
        if isinstance(v, bool): return BoolVal(v)
        if not (z3.is_expr(v) and v.sort() == B):
            raise Unsupported('contract clause is not boolean: %r' % (ast,))
        return v

    def box_for_cmp(self, a, at, b, bt):
        """comparing an interface with a concrete scalar: box the scalar"""
        if isinstance(a, IfaceV) and z3.is_expr(b) and bt not in (None, 'nil') and self.K(bt) != 'iface' and self.K(bt) != 'nil':
            return a, IfaceV(IntVal(self.p.typeid(bt)), b)
        if isinstance(b, IfaceV) and z3.is_expr(a) and at not in (None, 'nil') and self.K(at) != 'iface' and self.K(at) != 'nil':
            return IfaceV(IntVal(self.p.typeid(at)), a), b
        return a, b

    def ev(self, a, env):
        k = a[0]
        st = env['st']
        if k == 'num':
            if '.' in a[1]: return (RealVal(a[1]), 'real')
            return (IntVal(int(a[1])), 'int')
        if k == 'bool': return (BoolVal(a[1]), 'bool')
        if k == 'nil': return (IntVal(0), 'nil')
        if k == 'str': return (self.strc(a[1]), 'string')
        if k == 'id': return self.lookup(a[1], env)
        if k == 'field':
            if a[1][0] == 'id' and a[1][1] not in env['vars'] and not (env.get('fr') is not None and a[1][1] in env['fr'].names):
                try:
                    return self.lookup(a[1][1] + '.' + a[2], env)   # pkg.Global of another package
                except Unsupported:
                    pass
            v, t = self.ev(a[1], env)
            return self.ev_field(v, t, a[2], env)
        if k == 'comp':
            v, t = self.ev(a[1], env)
            if isinstance(v, SliceV): return (getattr(v, a[2]), 'int')
            if isinstance(v, IfaceV): return (getattr(v, a[2]), 'int')
            if isinstance(v, StrV): return (getattr(v, a[2]), 'int')
            if isinstance(v, FuncV): return (v.id, 'int')
            raise Unsupported('component %s of %r' % (a[2], v))
        if k == 'index':
            v, t = self.ev(a[1], env)
            i, _ = self.ev(a[2], env)
            if isinstance(v, SliceV):
                et = v.et
                if self.K(et) == 'struct':
                    return (self.elemref(et)(v.arr, self.at(v.base, i)), '*' + et)
                loc = Loc('mem:' + self.skey(et), (v.arr, self.at(v.base, i)), et)
                return (self.load_loc(st, loc, facts=False), et)
            if isinstance(v, Loc) and v.arrlen is not None:
                return (self.load_loc(st, Loc(v.key, v.idx + (i,), v.t), facts=False), v.t)
            if isinstance(v, tuple) and v[0] == 'ghostmap':
                return (v[4].rd(v[1], (i,), v[2]), v[3])
            raise Unsupported('index of %r' % (v,))
        if k == 'slice':
            v, t = self.ev(a[1], env)
            lo = self.ev(a[2], env)[0] if a[2] else IntVal(0)
            if isinstance(v, SliceV):
                hi = self.ev(a[3], env)[0] if a[3] else v.len
                return (SliceV(v.arr, v.base + lo, hi - lo, v.cap - lo, v.et), t)
            raise Unsupported('slice of %r' % (v,))
        if k == 'un':
            if a[1] == '!': return (Not(self.ev_bool(a[2], env)), 'bool')
            if a[1] == '-':
                v, t = self.ev(a[2], env); return (-v, t)
            if a[1] == '*':
                v, t = self.ev(a[2], env)
                if isinstance(v, Loc): return (self.load_loc(st, v, facts=False), v.t)
                raise Unsupported('deref of %r in contract' % (v,))
        if k == 'bin':
            op = a[1]
            if op in ('&&', '||', '==>', '<==>'):
                x = self.ev_bool(a[2], env); y = self.ev_bool(a[3], env)
                return ({'&&': And(x, y), '||': Or(x, y), '==>': Implies(x, y), '<==>': x == y}[op], 'bool')
            x, xt = self.ev(a[2], env); y, yt = self.ev(a[3], env)
            if op in ('==', '!='):
                x, y = self.box_for_cmp(x, xt, y, yt)
                if isinstance(x, FuncV) and isinstance(y, FuncV): r = x.id == y.id          # contract language: identity of function values
                elif isinstance(x, SliceV) and isinstance(y, SliceV): r = And(x.arr == y.arr, x.base == y.base, x.len == y.len, x.cap == y.cap)
                else: r = self.equal(x, y, xt)
                return (r if op == '==' else Not(r), 'bool')
            if op in ('<', '<=', '>', '>='):
                if z3.is_expr(x) and z3.is_expr(y) and x.sort() != y.sort():
                    if x.sort() == I: x = z3.ToReal(x)
                    if y.sort() == I: y = z3.ToReal(y)
                return ({'<': x < y, '<=': x <= y, '>': x > y, '>=': x >= y}[op], 'bool')
            rt = xt if xt not in ('nil',) else yt
            if op == '+': return (x + y, rt)
            if op == '-': return (x - y, rt)
            if op == '*': return (x * y, rt)
            if op == '/': return (x / y, rt)
            if op == '%': return (x % y, rt)
            if op in ('&', '|', '&^', '<<', '>>', '^'):
                bits, signed = (self.p.intinfo(rt) if self.K(rt) == 'int' else (64, True))
                return (self.bitop(op, x, y, bits, signed, rt if self.K(rt) == 'int' else 'int'), rt)
            raise Unsupported('operator %s' % op)
        if k == 'quant':
            vars = dict(env['vars']); bound = []
            for n, tn in a[2]:
                if tn == 'real': v = z3.Real('q!' + n); t = 'real'
                elif tn == 'bool': v = Bool('q!' + n); t = 'bool'
                elif tn == 'int': v = Int('q!' + n); t = 'int'
                else:
                    v = Int('q!' + n); t = self.resolve_type(tn)
                vars[n] = (v, t); bound.append(v)
            e2 = dict(env); e2['vars'] = vars
            body = self.ev_bool(a[4], e2)
            pats = []
            for grp in a[3]:
                ps = [self.ev(tr, e2)[0] for tr in grp]
                pats.append(ps[0] if len(ps) == 1 else z3.MultiPattern(*ps))
            if a[1] == 'forall':
                return (ForAll(bound, body, patterns=pats) if pats else ForAll(bound, body), 'bool')
            return (Exists(bound, body), 'bool')
        if k == 'call':
            return self.ev_call(a, env)
        raise Unsupported('contract expression %r' % (a,))

    def ev_field(self, v, t, fname, env):
        st = env['st']
        if isinstance(v, StructV):
            f = self.p.field(v.t, fname)
            return (v.f[fname], f['type'])
        if isinstance(v, (SliceV, IfaceV, StrV, Loc, FuncV)) or not z3.is_expr(v):
            raise Unsupported('field %s of %r' % (fname, v))
        et = self.ptr_elem(t) if self.K(t) != 'struct' else t
        if et is None: raise Unsupported('field %s of non-pointer %s' % (fname, t))
        # ghost field?
        for g, gt in self.c.ghostfields.items():
            tn, gf = g.rsplit('.', 1)
            if gf == fname:
                own = self.ghost_owner(et, tn)
                if own is not None:
                    ref, ot = self.walk_to(v, et, own, st)
                    srt = R if gt == 'real' else (B if gt == 'bool' else I)
                    rt = gt if gt in ('real', 'bool', 'int') else self.resolve_type(gt)
                    return (st.rd(self.ghost_key(ot, fname), (ref,), srt), rt)
        path = self.p.find_field_path(et, fname)
        if not path: raise Unsupported('no field %s in %s' % (fname, et))
        ref = v; cur = et
        for f in path:
            fl = self.field_loc(st, ref, cur, f['name'])
            if isinstance(fl, Loc):
                if f is path[-1]:
                    if fl.arrlen is not None: return (fl, f['type'])
                    return (self.load_loc(st, fl, facts=False), f['type'])
                # embedded pointer
                ref = self.load_loc(st, fl, facts=False); cur = self.p.elem(f['type'])
            else:
                ref = fl; cur = f['type']
        return (ref, '*' + cur)

    def ghost_owner(self, et, tn):
        """struct type (et itself or a struct embedded in it by value) matching type name tn"""
        if self.match_type(et, tn): return et
        for f in self.p.fields(et):
            if f['embedded'] and self.K(f['type']) == 'struct':
                o = self.ghost_owner(f['type'], tn)
                if o: return o
        return None

    def walk_to(self, ref, et, target, st):
        if et == target: return ref, et
        for f in self.p.fields(et):
            if f['embedded'] and self.K(f['type']) == 'struct':
                if self.ghost_owner(f['type'], self.skey(target).split('.')[-1]) or f['type'] == target:
                    sub = self.field_loc(st, ref, et, f['name'])
                    return self.walk_to(sub, f['type'], target, st)
        return ref, target

    def ev_call(self, a, env):
        st = env['st']
        fn = a[1]
        args = a[2]
        if fn[0] != 'id': raise Unsupported('call of %r in contract' % (fn,))
        name = fn[1]
        if name == 'old':
            if env['old'] is None: raise Unsupported('old() without a pre-state')
            o = dict(env['old'])
            # bound variables of enclosing quantifiers stay visible
            ov = dict(o['vars'])
            for n, x in env['vars'].items():
                if n not in ov: ov[n] = x
                elif z3.is_expr(x[0]) and str(x[0]).startswith('q!'): ov[n] = x
            o['vars'] = ov
            return self.ev(args[0], o)
        if name == 'len':
            v, t = self.ev(args[0], env)
            if isinstance(v, SliceV): return (v.len, 'int')
            if isinstance(v, StrV): return (v.slen, 'int')
            if isinstance(v, Loc) and v.arrlen is not None: return (IntVal(v.arrlen), 'int')
            raise Unsupported('len of %r' % (v,))
        if name == 'cap':
            v, t = self.ev(args[0], env)
            if isinstance(v, SliceV): return (v.cap, 'int')
            raise Unsupported('cap of %r' % (v,))
        if name == 'unchanged':
            if env['old'] is None: raise Unsupported('unchanged() without a pre-state')
            cs = []
            for x in args:
                entry = self.unparse(x)
                for key in self.mod_entry_keys(entry, None):
                    if key in st.sorts:
                        nidx, srt = st.sorts[key]
                        cs.append(st.arr(key, nidx, srt) == env['old']['st'].arr(key, nidx, srt))
            return (And(*cs) if cs else BoolVal(True), 'bool')
        if name == 'fresh':
            v, t = self.ev(args[0], env)
            if env['old'] is None: raise Unsupported('fresh() without a pre-state')
            if isinstance(v, SliceV): v = v.arr
            return (v > env['old']['st'].alloc, 'bool')
        if name == 'memframe':
            # memframe(T, s): every array of element type T other than the backing array of slice s is unchanged
            if env['old'] is None: raise Unsupported('memframe() without a pre-state')
            et = self.resolve_type(self.ast_type(args[0]))
            v, t = self.ev(args[1], env)
            arr = v.arr if isinstance(v, SliceV) else v
            a = Int('mf!a'); cs = []
            for key in sorted(self.keys_of('mem:' + self.skey(et), et)):
                if key in st.sorts:
                    nidx, srt = st.sorts[key]
                    new = st.arr(key, nidx, srt); oldarr = env['old']['st'].arr(key, nidx, srt)
                    cs.append(ForAll([a], Implies(a != arr, Select(new, a) == Select(oldarr, a)), patterns=[Select(new, a)]))
            return (And(*cs) if cs else BoolVal(True), 'bool')
        if name == 'wasalloc':
            v, t = self.ev(args[0], env)
            if env['old'] is None: raise Unsupported('wasalloc() without a pre-state')
            if isinstance(v, SliceV): v = v.arr
            return (And(v > 0, v <= env['old']['st'].alloc), 'bool')
        if name == 'allocbound':
            return (st.alloc, 'int')
        if name == 'allocated':
            v, t = self.ev(args[0], env)
            if isinstance(v, SliceV): v = v.arr
            return (And(v > 0, v <= st.alloc), 'bool')
        if name == 'typeis':
            v, t = self.ev(args[0], env)
            tn = self.resolve_type(self.ast_type(args[1]))
            if not isinstance(v, IfaceV): raise Unsupported('typeis of non-interface')
            return (v.tag == self.p.typeid(tn), 'bool')
        if name == 'as':
            v, t = self.ev(args[0], env)
            tn = self.resolve_type(self.ast_type(args[1]))
            if not isinstance(v, IfaceV): raise Unsupported('as() of non-interface')
            return (v.val, tn)
        if name == 'iface':
            # iface(x, T): box scalar x as dynamic type T
            v, t = self.ev(args[0], env)
            tn = self.resolve_type(self.ast_type(args[1])) if len(args) > 1 else t
            return (IfaceV(IntVal(self.p.typeid(tn)), v), 'error')
        if name == 'ite':
            c = self.ev_bool(args[0], env); x, xt = self.ev(args[1], env); y, yt = self.ev(args[2], env)
            return (If(c, x, y), xt)
        if name in ('min', 'max'):
            x, xt = self.ev(args[0], env); y, _ = self.ev(args[1], env)
            return (If(x < y, x, y) if name == 'min' else If(x > y, x, y), xt)
        if name == 'int':
            x, xt = self.ev(args[0], env); return (x, 'int')
        if name == 'real':
            x, xt = self.ev(args[0], env); return (z3.ToReal(x) if x.sort() == I else x, 'real')
        if name == 'mem':
            # mem(slice, i): byte i of slice
            v, t = self.ev(args[0], env); i, _ = self.ev(args[1], env)
            return (st.rd('mem:' + self.skey(v.et), (v.arr, self.at(v.base, i))), v.et)
        if name == 'sameslice':
            x, _ = self.ev(args[0], env); y, _ = self.ev(args[1], env)
            return (And(x.arr == y.arr, x.base == y.base, x.len == y.len, x.cap == y.cap), 'bool')
        if name == 'event':
            hook = getattr(self, 'ev_event', None)
            if hook: return hook(a, env)
        if name in self.c.pures:
            ps, rt, body, txt = self.c.pures[name]
            if len(ps) != len(args): raise Unsupported('arity of %s' % name)
            vars = {}
            for (pn, pt), x in zip(ps, args):
                v, t = self.ev(x, env)
                vars[pn] = (v, t if t not in (None, 'nil') else self.try_resolve(pt))
            # keep quantifier-bound variables and result names out; pures are closed over their params
            e2 = {'st': st, 'old': env['old'], 'vars': vars, 'fr': None}
            v, t = self.ev(body, e2)
            return (v, rt if rt != 'bool' else 'bool')
        if name in self.c.ghostmaps:
            raise Unsupported('ghost map %s used as function' % name)
        raise Unsupported('unknown function %s in contract' % name)

    def try_resolve(self, t):
        try: return self.resolve_type(t)
        except Unsupported: return t

    def unparse(self, a):
        if a[0] == 'id': return a[1]
        if a[0] == 'field': return self.unparse(a[1]) + '.' + a[2]
        raise Unsupported('cannot unparse %r' % (a,))

    def ev_lval(self, a, env):
        """leaf locations (key, idx, sort) denoted by an lvalue expression x.f / x.f[i]"""
        st = env['st']
        if a[0] == 'field':
            v, t = self.ev(a[1], env)
            et = self.ptr_elem(t) if self.K(t) != 'struct' else t
            for g, gt in self.c.ghostfields.items():
                tn, gf = g.rsplit('.', 1)
                if gf == a[2]:
                    own = self.ghost_owner(et, tn)
                    if own is not None:
                        ref, ot = self.walk_to(v, et, own, st)
                        srt = R if gt == 'real' else (B if gt == 'bool' else I)
                        return [(self.ghost_key(ot, a[2]), (ref,), srt)]
            path = self.p.find_field_path(et, a[2])
            if not path: raise Unsupported('no field %s in %s' % (a[2], et))
            ref = v; cur = et
            for f in path:
                fl = self.field_loc(st, ref, cur, f['name'])
                if isinstance(fl, Loc):
                    if f is path[-1]:
                        if fl.arrlen is not None:
                            return [(fl.key, fl.idx, self.sort_of(fl.t))]
                        return [(fl.key + c, fl.idx, srt) for c, srt in self.leaves(fl.t)]
                    ref = self.load_loc(st, fl, facts=False); cur = self.p.elem(f['type'])
                else:
                    ref = fl; cur = f['type']
            # nested struct: all its leaves
            out = []
            for key in self.struct_keys(cur):
                nidx, srt = st.sorts.get(key, (1, I))
                out.append((key, (ref,), srt))
            return out
        if a[0] == 'index':
            v, t = self.ev(a[1], env)
            i, _ = self.ev(a[2], env)
            if isinstance(v, tuple) and v[0] == 'ghostmap':
                return [(v[1], (i,), v[2])]
            if isinstance(v, Loc) and v.arrlen is not None:
                return [(v.key, v.idx + (i,), self.sort_of(v.t))]
            if isinstance(v, SliceV):
                return [('mem:' + self.skey(v.et) + c, (v.arr, self.at(v.base, i)), srt) for c, srt in self.leaves(v.et)]
            base = self.ev_lval(a[1], env)
            return [(k, idx + (i,), s) for k, idx, s in base]
        if a[0] == 'id' and a[1] in self.c.ghostglobals:
            t = self.c.ghostglobals[a[1]]
            return [('ghost:' + a[1], (), R if t == 'real' else (B if t == 'bool' else I))]
        raise Unsupported('not an lvalue: %r' % (a,))
