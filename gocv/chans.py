# gocv channels and timers: typestate of time.Timer (legacy, go.mod < 1.23 semantics) and value invariants of
# channels stored in struct fields.  Declarations:
#   //@ chan T.f carries v: <predicate over v>      every value sent satisfies it (obligation at each send), every
#                                                    value received may be assumed to satisfy it
# Ghost events 'before recv <field>#k' / 'before send <field>#k' let contracts attach pattern obligations to the
# blocking operations (k = ordinal of the receive/send sites on that field in the function).
import re, z3
from z3 import IntVal, BoolVal, And, Or, Not, Implies, If
from vals import *
import cparse


def provenance(e, fn, operand):
    """(field key 'T.f', register holding the struct pointer) of a channel operand, from the SSA def chain"""
    if operand is None or operand.get('k') != 'reg': return None, None
    d = e.defs(fn).get(operand['name'])
    if not d: return None, None
    ins = d[2]
    if ins['op'] == 'UnOp' and ins['unop'] == '*' and ins['x'].get('k') == 'reg':
        d2 = e.defs(fn).get(ins['x']['name'])
        if d2 and d2[2]['op'] == 'FieldAddr':
            fa = d2[2]
            return e.shortfn(fa['struct']) + '.' + fa['field'], fa['x']
    if ins['op'] == 'Call' and ins.get('invoke') and ins.get('iface'):
        # a channel obtained from an interface method (ctx.Done()): events 'before recv Done#k'
        return e.shortfn(ins['iface']) + '.' + ins['invoke'], ins.get('recv')
    if ins['op'] in ('ChangeType', 'Phi'):
        return None, None
    return None, None


def site_ord(e, fn, key, kind, bidx, iidx, sidx):
    ck = (fn.name, 'chan', key, kind)
    if ck not in e._ordcache:
        lst = []
        for b in fn.blocks:
            for i, ins in enumerate(b['instrs']):
                if ins['op'] == 'UnOp' and ins.get('unop') == '<-' and kind == 'recv':
                    k, _ = provenance(e, fn, ins['x'])
                    if k == key: lst.append((b['index'], i, -1))
                elif ins['op'] == 'Send' and kind == 'send':
                    k, _ = provenance(e, fn, ins['chan'])
                    if k == key: lst.append((b['index'], i, -1))
                elif ins['op'] == 'Select':
                    for si, s in enumerate(ins['states']):
                        if (s['dir'] == 2) == (kind == 'recv'):
                            k, _ = provenance(e, fn, s['chan'])
                            if k == key: lst.append((b['index'], i, si))
        e._ordcache[ck] = lst
    try: return e._ordcache[ck].index((bidx, iidx, sidx)) + 1
    except ValueError: return 0


def hook(e, fr, st, kind, ch, ins, site, operand=None, sidx=-1, value=None):
    key, preg = provenance(e, fr.fn, operand)
    if key is None: return None
    short = key.split('.')[-1]
    if site is not None:
        k = site_ord(e, fr.fn, key, kind, site[0], site[1], sidx)
        if e.ghost_events(fr):
            e.run_ghost_event(fr, st, 'before %s %s#%d' % (kind, short, k))
    if key == 'time.Timer.C' and kind == 'recv':
        t = e.val(preg, fr, st)
        tk = 'time.Timer.tstate'
        cur = st.rd(tk, (t,), I)
        e.oblige(st, fr, 'chan.timer.recv', '', cur != 0, site, text='receive on the channel of a timer that is neither armed nor fired blocks for ever')
        st.assume(cur != 0)
        st.wr(tk, (t,), IntVal(0), I)
        return None
    rule = e.chanrules.get(key)
    if rule is not None:
        if kind == 'send' and value is not None:
            env = {'st': st, 'old': None, 'vars': {'v': (value, rule[1])}, 'fr': fr}
            e.oblige(st, fr, 'chan.send', short, e.ev_bool(rule[0], env), site, text='value sent on %s satisfies the channel invariant' % key)
        return rule
    return None


def install(e):
    e.chanrules = {}
    for text, src in getattr(e.c, 'chandecls', []):
        m = re.match(r'([\w.]+)\s+carries\s+(\w+)\s*:\s*(.*)$', text, re.S)
        if not m: raise Unsupported('%s: bad chan declaration %r' % (src, text))
        e.chanrules[m.group(1)] = (cparse.parse_expr(m.group(3).replace(m.group(2) + ' ', 'v ').replace(m.group(2) + ',', 'v,').replace('(' + m.group(2) + ')', '(v)') if m.group(2) != 'v' else m.group(3)), 'error')
    e.chan_hook = lambda fr, st, kind, ch, ins, site, operand=None, sidx=-1, value=None: hook(e, fr, st, kind, ch, ins, site, operand, sidx, value)
