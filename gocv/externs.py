# gocv built-in semantics for external functions that need more than a contract can say
# (sync/atomic on addressed cells, sync.Pool of the package, runtime helpers).
# Everything here is an ASSUMED contract and is listed in the evidence (trusted base).
import z3
from z3 import IntVal, BoolVal, And, Or, Not, Implies, If
from ir import short
from vals import *

ASSUMED = {
    'sync/atomic.*': 'sequentially consistent read/write of the addressed cell; Add wraps at the type width',
    '(*sync.Pool).Get/Put': 'Get returns an object no live reference points to; for linkedPool its buf/origin/next are nil (justified by the obligation at every Put site)',
    'runtime.Gosched': 'no effect',
    '(*atomic.Value).Load/Store': 'a cell holding the last stored interface value (linearizable)',
}


def _cell(e, st, a):
    if not isinstance(a, Loc): raise Unsupported('atomic op on %r' % (a,))
    return a


def mk_atomic(kind, t):
    def h(e, fr, st, ins, site, args, cont):
        loc = _cell(e, st, args[0])
        hook = getattr(e, 'atomic_hook', None)
        if kind == 'Load':
            e.apply_rely(fr, st, loc)
            if hook: hook(fr, st, 'load', loc, None, None, ins, site)
            v = e.load_loc(st, loc)
            return cont(st, v)
        if kind == 'Store':
            if hook: hook(fr, st, 'store', loc, args[1], None, ins, site)
            e.store_loc(st, loc, args[1])
            return cont(st, None)
        if kind == 'Add':
            old = e.load_loc(st, loc)
            nv = e.wrap(old + args[1], t)
            if hook: hook(fr, st, 'add', loc, nv, old, ins, site)
            e.store_loc(st, loc, nv)
            return cont(st, nv)
        if kind == 'CompareAndSwap':
            e.apply_rely(fr, st, loc)
            if hook: hook(fr, st, 'pre', loc, None, None, ins, site)
            old = e.load_loc(st, loc)
            ok = old == args[1]
            # fork so that token rules see a definite outcome
            for succ in (True, False):
                c = ok if succ else Not(ok)
                if not e.feasible(st, c): continue
                s2 = st.copy(); s2.assume(c)
                if succ:
                    if hook: hook(fr, s2, 'cas', loc, args[2], args[1], ins, site)
                    e.store_loc(s2, loc, args[2])
                else:
                    if hook: hook(fr, s2, 'casfail', loc, args[2], args[1], ins, site)
                cont(s2, BoolVal(succ))
            return
        if kind == 'Swap':
            old = e.load_loc(st, loc)
            if hook: hook(fr, st, 'store', loc, args[1], None, ins, site)
            e.store_loc(st, loc, args[1])
            return cont(st, old)
        raise Unsupported('atomic ' + kind)
    def mods(e, fn, ins, defs):
        if kind == 'Load': return set()
        return e.static_addr_keys(fn, ins['args'][0], defs)
    h.mods = mods
    return h


def pool_get(e, fr, st, ins, site, args, cont):
    recv = args[0]
    name = None
    for g, r in e.globalrefs.items():
        if z3.is_int_value(recv) and recv.as_long() == r: name = short(g)
    if name and name.endswith('linkedPool'):
        t = [x for x in e.p.types if x.endswith('netpoll.linkBufferNode') and e.p.desc(x).get('kind') == 'named'][0]
        r = st.newref('node')
        e.no_dangling(st, r, t)
        # recycled node: arbitrary scalars, but buf/origin/next were cleared before Put
        for f in e.p.fields(t):
            fl = e.field_loc(st, r, t, f['name'])
            if f['name'] in ('buf', 'origin', 'next'):
                z = e.zero(fl.t)
                for (c, srt), x in zip(e.leaves(fl.t), e.comps(z)): st.wr(fl.key + c, fl.idx, x, srt, log=False)
        for gk, gt in e.c.ghostfields.items():
            tn, fnm = gk.rsplit('.', 1)
            if e.match_type(t, tn):
                srt = R if gt == 'real' else (B if gt == 'bool' else I)
                zero = BoolVal(False) if srt == B else (z3.RealVal(0) if srt == R else IntVal(0))
                st.wr(e.ghost_key(t, fnm), (r,), zero, srt, log=False)
        return cont(st, IfaceV(IntVal(e.p.typeid('*' + t)), r))
    if name and name.endswith('barrierPool'):
        t = [x for x in e.p.types if x.endswith('netpoll.barrier') and e.p.desc(x).get('kind') == 'named'][0]
        r = st.newref('barrier')
        bs = e.load_loc(st, e.field_loc(st, r, t, 'bs')); ivs = e.load_loc(st, e.field_loc(st, r, t, 'ivs'))
        st.assume(And(bs.len == 32, bs.cap == 32, ivs.len == 32, ivs.cap == 32, bs.arr > 0, ivs.arr > 0, bs.base == 0, ivs.base == 0, bs.arr != ivs.arr))
        return cont(st, IfaceV(IntVal(e.p.typeid('*' + t)), r))
    e.assumptions.add('(*sync.Pool).Get on %s: arbitrary value' % name)
    return cont(st, e.fresh(st, ins['type'], 'poolget'))


def pool_put(e, fr, st, ins, site, args, cont):
    recv = args[0]
    name = None
    for g, r in e.globalrefs.items():
        if z3.is_int_value(recv) and recv.as_long() == r: name = short(g)
    if name and name.endswith('linkedPool'):
        x = args[1]
        t = [y for y in e.p.types if y.endswith('netpoll.linkBufferNode') and e.p.desc(y).get('kind') == 'named'][0]
        n = x.val
        buf = e.load_loc(st, e.field_loc(st, n, t, 'buf'))
        org = e.load_loc(st, e.field_loc(st, n, t, 'origin'))
        nxt = e.load_loc(st, e.field_loc(st, n, t, 'next'))
        e.oblige(st, fr, 'pre', 'linkedPool.Put.cleared', And(buf.arr == 0, org == 0, nxt == 0), site)
        hook = getattr(e, 'put_hook', None)
        if hook: hook(fr, st, n, ins, site)
    return cont(st, None)


def value_load(e, fr, st, ins, site, args, cont):
    r = args[0]
    v = e.load_loc(st, e.field_loc(st, r, 'sync/atomic.Value', 'v'))
    return cont(st, v)


def value_store(e, fr, st, ins, site, args, cont):
    r = args[0]; v = args[1]
    if not isinstance(v, IfaceV): raise Unsupported('atomic.Value.Store of %r' % (v,))
    hook = getattr(e, 'value_store_hook', None)
    if hook: hook(fr, st, r, v, ins, site)
    e.store_loc(st, e.field_loc(st, r, 'sync/atomic.Value', 'v'), v)
    return cont(st, None)


def gosched(e, fr, st, ins, site, args, cont):
    return cont(st, None)


def install(e):
    for t, gt in (('Int32', 'int32'), ('Int64', 'int64'), ('Uint32', 'uint32'), ('Uint64', 'uint64'), ('Uintptr', 'uintptr')):
        for k in ('Load', 'Store', 'Add', 'CompareAndSwap', 'Swap'):
            e.externs['sync/atomic.%s%s' % (k, t)] = mk_atomic(k, gt)
    e.externs['(*sync.Pool).Get'] = pool_get
    e.externs['(*sync.Pool).Put'] = pool_put
    e.externs['runtime.Gosched'] = gosched
    e.externs['(*sync/atomic.Value).Load'] = value_load
    e.externs['(*sync/atomic.Value).Store'] = value_store
    for k, v in ASSUMED.items():
        e.assumptions.add('assumed: %s — %s' % (k, v))
