# gocv engine: path-wise symbolic execution of go/ssa functions against contracts,
# generating named proof obligations (z3 terms).
import sys, re, time
import z3
from z3 import Int, IntVal, Bool, BoolVal, RealVal, And, Or, Not, Implies, If, Select, Store, K, IntSort, BoolSort, RealSort, ForAll, Exists
from ir import short, Program
from vals import *
import cparse
from execm import ExecMixin
from callm import CallMixin
from evalm import EvalMixin

sys.setrecursionlimit(20000)


def zint(v):
    return v if z3.is_expr(v) else IntVal(v)


class Engine(ExecMixin, CallMixin, EvalMixin):
    def __init__(self, prog, contracts, opts=None):
        self.p = prog
        self.p_consts = prog.consts
        self.top_name = None
        self.c = contracts
        self.opts = opts or {}
        self.obls = []
        self.assumptions = set()
        self.inlined = set()
        self.havocs = set()
        self.cur = None           # function under verification (short name)
        self.maxdepth = self.opts.get('inline_depth', 4)
        self.branch_timeout = self.opts.get('branch_timeout', 2000)
        self.npaths = 0
        self.maxpaths = self.opts.get('max_paths', 4000)
        self.strconst = {}
        self.externs = {}
        self.elemref_fns = {}
        self._ordcache = {}
        self._hq = {}
        self.at_fn = z3.Function('at', I, I, I)
        self.hasbit = z3.Function('hasbit', I, I, B)
        self.bitfns = {}
        self.global_axioms = []
        self._bitconst = set()
        self.globalrefs = {}
        self.path_ends = []       # (kind, trace)
        import externs
        externs.install(self)
        import tokens
        tokens.install(self)
        import chans
        chans.install(self)

    # ------------------------------------------------------------------ types / leaves
    def K(self, t): return self.p.kind(t)

    def sort_of(self, t):
        k = self.K(t)
        if k == 'bool': return B
        if k == 'float': return R
        if t == 'real': return R
        return I

    def skey(self, t):
        return re.sub(r'\bbyte\b', 'uint8', short(t))

    def leaves(self, t):
        """component suffixes of a non-struct, non-array type"""
        k = self.K(t)
        if k == 'slice': return [('#arr', I), ('#base', I), ('#len', I), ('#cap', I)]
        if k == 'string': return [('#sid', I), ('#slen', I)]
        if k == 'iface': return [('#tag', I), ('#val', I)]
        return [('', self.sort_of(t))]

    def type_facts(self, st, v, t):
        """assume the representation invariants of a value of Go type t (machine ranges, nil slices...)"""
        k = self.K(t)
        if k == 'int':
            if not z3.is_expr(v) or z3.is_int_value(v): return
            if v.get_id() in st.seen: return
            st.seen.add(v.get_id())
            bits, signed = self.p.intinfo(t)
            if signed:
                if bits < 64 or self.opts.get('int64_bounds'):
                    st.assume(And(v >= -(1 << (bits - 1)), v <= (1 << (bits - 1)) - 1))
            else:
                st.assume(v >= 0)
                if bits < 64: st.assume(v <= (1 << bits) - 1)
        elif k in ('ptr', 'chan', 'map') :
            if isinstance(v, Loc) or not z3.is_expr(v) or z3.is_int_value(v): return
            if v.get_id() in st.seen: return
            st.seen.add(v.get_id())
            st.assume(v >= 0)
            st.assume(v <= st.alloc)
        elif k == 'slice' and isinstance(v, SliceV):
            if z3.is_expr(v.len) and v.len.get_id() in st.seen: return
            if z3.is_expr(v.len): st.seen.add(v.len.get_id())
            st.assume(And(v.len >= 0, v.len <= v.cap, v.base >= 0, v.arr >= 0, v.arr <= st.alloc))
            st.assume(Implies(v.arr == 0, v.cap == 0))
        elif k == 'string' and isinstance(v, StrV):
            if v.const is None: st.assume(v.slen >= 0)
        elif k == 'func' and isinstance(v, FuncV):
            if z3.is_expr(v.id) and not z3.is_int_value(v.id): st.assume(v.id >= 0)
        elif k == 'iface' and isinstance(v, IfaceV):
            if z3.is_expr(v.tag) and not z3.is_int_value(v.tag):
                if v.tag.get_id() in st.seen: return
                st.seen.add(v.tag.get_id())
                st.assume(v.tag >= 0)
                st.assume(Implies(v.tag == 0, v.val == 0))

    def zero(self, t):
        k = self.K(t)
        if k == 'bool': return BoolVal(False)
        if k == 'float': return RealVal(0)
        if k == 'slice': return SliceV(IntVal(0), IntVal(0), IntVal(0), IntVal(0), self.p.elem(t))
        if k == 'string': return self.strc('')
        if k == 'iface': return IfaceV(IntVal(0), IntVal(0))
        if k == 'func': return FuncV(IntVal(0), t=t)
        if k == 'struct':
            return StructV(t, {f['name']: self.zero(f['type']) for f in self.p.fields(t)})
        if k == 'array':
            return Unknown('array value')
        if k == 'tuple':
            _, d = self.p.under(t)
            return TupleV([self.zero(e) for e in d['elems']])
        return IntVal(0)

    def fresh(self, st, t, hint='v'):
        k = self.K(t)
        if k == 'bool': v = fbool(hint)
        elif k == 'float': v = freal(hint)
        elif k == 'slice': v = SliceV(fint(hint + '.arr'), fint(hint + '.base'), fint(hint + '.len'), fint(hint + '.cap'), self.p.elem(t))
        elif k == 'string': v = StrV(fint(hint + '.sid'), fint(hint + '.slen'))
        elif k == 'iface': v = IfaceV(fint(hint + '.tag'), fint(hint + '.val'))
        elif k == 'func': v = FuncV(fint(hint + '.fn'), t=t)
        elif k == 'struct': v = StructV(t, {f['name']: self.fresh(st, f['type'], hint + '.' + f['name']) for f in self.p.fields(t)})
        elif k == 'tuple':
            _, d = self.p.under(t)
            v = TupleV([self.fresh(st, e, hint + '.%d' % i) for i, e in enumerate(d['elems'])])
        elif k == 'array': v = Unknown('array value')
        elif k == 'none': v = None
        else: v = fint(hint)
        if st is not None: self.type_facts(st, v, t)
        return v

    def strc(self, s):
        if s not in self.strconst:
            self.strconst[s] = len(self.strconst) + 1
        return StrV(IntVal(self.strconst[s]), IntVal(len(s.encode())), s)

    def at(self, base, idx):
        """element index base+idx, wrapped in an uninterpreted symbol so that quantifier patterns can match it"""
        if z3.is_int_value(base) and base.as_long() == 0: return idx
        if z3.is_int_value(base) and z3.is_int_value(idx): return IntVal(base.as_long() + idx.as_long())
        return self.at_fn(base, idx)

    def at_axiom(self):
        b, i = z3.Ints('at!b at!i')
        return z3.ForAll([b, i], self.at_fn(b, i) == b + i, patterns=[self.at_fn(b, i)])

    def elemref(self, et):
        key = self.skey(et)
        if key not in self.elemref_fns:
            f = z3.Function('elemref!' + key, I, I, I)
            self.elemref_fns[key] = f
            # distinct (array, index) pairs address distinct elements: inverse functions
            ia = z3.Function('elemarr!' + key, I, I); ii = z3.Function('elemidx!' + key, I, I)
            a, i = z3.Ints('er!a er!i')
            self.global_axioms.append(z3.ForAll([a, i], And(ia(f(a, i)) == a, ii(f(a, i)) == i), patterns=[f(a, i)]))
        return self.elemref_fns[key]

    # ------------------------------------------------------------------ typed heap access
    def field_loc(self, st, ref, stype, fname):
        """address of field fname of the struct of type stype at ref: Int ref (nested struct) or Loc"""
        f = self.p.field(stype, fname)
        if f is None: raise Unsupported('no field %s in %s' % (fname, stype))
        ft = f['type']; k = self.K(ft)
        if k == 'struct':
            off = f.get('offset')
            if off is None: off = 8 * (1 + [x['name'] for x in self.p.fields(stype)].index(fname))
            return ref + off if off else ref
        key = self.skey(stype) + '.' + fname
        if k == 'array':
            _, d = self.p.under(ft)
            return Loc(key, (ref,), d['elem'], arrlen=d['len'])
        return Loc(key, (ref,), ft)

    def bound_fields(self):
        if getattr(self, '_bound_fields', None) is not None: return self._bound_fields
        out = {}
        for props, tf, fn, via, makers, src in self.c.binds:
            tn, fnm = tf.rsplit('.', 1)
            full = [t for t in self.p.types if self.match_type(t, tn) and self.p.desc(t).get('kind') == 'named']
            g = self.find_fn(fn)
            if not full or g is None: raise Unsupported('%s: bad bind declaration' % src)
            off = 0
            if via:
                f = self.p.field(full[0], via); off = f.get('offset') or 0
            out[self.skey(full[0]) + '.' + fnm] = (g.name, off)
        self._bound_fields = out
        return out

    def load_loc(self, st, loc, facts=True):
        t = loc.t; k = self.K(t)
        if loc.arrlen is not None:
            raise Unsupported('load of whole array %s' % loc.key)
        if k == 'struct':
            raise Unsupported('struct-typed Loc %s' % loc.key)
        if k == 'slice':
            v = SliceV(*[st.rd(loc.key + c, loc.idx) for c, _ in self.leaves(t)], self.p.elem(t))
        elif k == 'string':
            v = StrV(st.rd(loc.key + '#sid', loc.idx), st.rd(loc.key + '#slen', loc.idx))
        elif k == 'iface':
            v = IfaceV(st.rd(loc.key + '#tag', loc.idx), st.rd(loc.key + '#val', loc.idx))
        elif k == 'func':
            v = FuncV(st.rd(loc.key, loc.idx), origin=loc.key, t=t)
            bf = self.bound_fields().get(loc.key)
            if bf is not None:
                # `bind` declaration: the field always holds the method value fn bound to its own struct (checked by the @owned scan)
                st.assume(v.id != 0)
                return FuncV(v.id, bf[0] + '$bound', [loc.idx[0] + bf[1] if bf[1] else loc.idx[0]], loc.key, t)
            if z3.is_int_value(z3.simplify(v.id)) and z3.simplify(v.id).as_long() in st.closures:
                c = st.closures[z3.simplify(v.id).as_long()]
                v = FuncV(v.id, c.name, c.bind, loc.key, t)
        else:
            v = st.rd(loc.key, loc.idx, self.sort_of(t))
        if facts: self.type_facts(st, v, t)
        return v

    def store_loc(self, st, loc, v):
        t = loc.t; k = self.K(t)
        if loc.arrlen is not None:
            raise Unsupported('store of whole array %s' % loc.key)
        self.couple_store(st, loc, v)
        if k == 'slice':
            if not isinstance(v, SliceV): raise Unsupported('store non-slice %r into %s' % (v, loc))
            for (c, _), x in zip(self.leaves(t), (v.arr, v.base, v.len, v.cap)): st.wr(loc.key + c, loc.idx, x)
        elif k == 'string':
            st.wr(loc.key + '#sid', loc.idx, v.sid); st.wr(loc.key + '#slen', loc.idx, v.slen)
        elif k == 'iface':
            if not isinstance(v, IfaceV): raise Unsupported('store non-iface %r into %s' % (v, loc))
            st.wr(loc.key + '#tag', loc.idx, v.tag); st.wr(loc.key + '#val', loc.idx, v.val)
        elif k == 'func':
            if isinstance(v, FuncV):
                st.wr(loc.key, loc.idx, v.id)
            else:
                st.wr(loc.key, loc.idx, v)
        else:
            if isinstance(v, (Loc, Unknown)):
                # pointer to a non-struct location stored in memory: not modelled, store an opaque ref
                st.wr(loc.key, loc.idx, fint('opaqueptr'))
                st.notes.append('opaque pointer stored at %s' % loc.key)
            else:
                st.wr(loc.key, loc.idx, v, self.sort_of(t))

    def couple_store(self, st, loc, v):
        """ghost coupling rules bound to stores of real fields (declared with //@ couple)"""
        pass

    def load_struct(self, st, ref, t):
        fs = {}
        for f in self.p.fields(t):
            fl = self.field_loc(st, ref, t, f['name'])
            if isinstance(fl, Loc):
                if fl.arrlen is not None:
                    fs[f['name']] = Unknown('array field')
                else:
                    fs[f['name']] = self.load_loc(st, fl)
            else:
                fs[f['name']] = self.load_struct(st, fl, f['type'])
        return StructV(t, fs)

    def store_struct(self, st, ref, t, v):
        if not isinstance(v, StructV):
            raise Unsupported('store non-struct %r as %s' % (v, t))
        for f in self.p.fields(t):
            fl = self.field_loc(st, ref, t, f['name'])
            x = v.f.get(f['name'])
            if isinstance(fl, Loc):
                if fl.arrlen is not None:
                    if isinstance(x, Unknown):
                        nidx, srt = st.sorts.get(fl.key, (2, self.sort_of(fl.t)))
                        st.arr(fl.key, 2, self.sort_of(fl.t))
                        st.havoc_at(fl.key, (ref,))
                    continue
                if isinstance(x, Unknown) or x is None:
                    for c, _ in self.leaves(fl.t):
                        st.arr(fl.key + c, 1, _)
                        st.havoc_at(fl.key + c, fl.idx)
                else:
                    self.store_loc(st, fl, x)
            else:
                self.store_struct(st, fl, f['type'], x)

    def zero_init(self, st, ref, t):
        for f in self.p.fields(t):
            fl = self.field_loc(st, ref, t, f['name'])
            if isinstance(fl, Loc):
                if fl.arrlen is not None:
                    srt = self.sort_of(fl.t)
                    a = st.arr(fl.key, 2, srt)
                    zero = BoolVal(False) if srt == B else (RealVal(0) if srt == R else IntVal(0))
                    st.heap[fl.key] = Store(a, ref, K(I, zero))
                else:
                    z = self.zero(fl.t)
                    for (c, srt), x in zip(self.leaves(fl.t), self.comps(z)):
                        st.wr(fl.key + c, fl.idx, x, srt, log=False)
            else:
                self.zero_init(st, fl, f['type'])
        # ghost fields of this struct type
        for gk, gt in self.c.ghostfields.items():
            tn, fn = gk.rsplit('.', 1)
            if self.match_type(t, tn):
                srt = self.sort_of(gt) if gt != 'real' else R
                zero = BoolVal(False) if srt == B else (RealVal(0) if srt == R else IntVal(0))
                st.wr(self.ghost_key(t, fn), (ref,), zero, srt, log=False)

    def comps(self, v):
        if isinstance(v, SliceV): return [v.arr, v.base, v.len, v.cap]
        if isinstance(v, StrV): return [v.sid, v.slen]
        if isinstance(v, IfaceV): return [v.tag, v.val]
        if isinstance(v, FuncV): return [v.id]
        return [v]

    def match_type(self, t, shortname):
        s = self.skey(t)
        return s == shortname or s.endswith('.' + shortname)

    def ghost_key(self, t, fname):
        return self.skey(t) + '.' + fname

    def resolve_type(self, name):
        """contract-language type name -> full type string"""
        if name in ('int', 'bool', 'real', 'string', 'int32', 'int64', 'uint8', 'byte', 'uint32', 'uintptr'):
            return {'byte': 'uint8'}.get(name, name)
        pre = ''
        while name.startswith('*') or name.startswith('[]'):
            if name.startswith('*'): pre += '*'; name = name[1:]
            else: pre += '[]'; name = name[2:]
        cands = [t for t in self.p.types if (t == name or t.endswith('.' + name) or t.endswith('/' + name)) and self.p.desc(t).get('kind') == 'named']
        if not cands:
            if pre + name in self.p.types: return pre + name
            raise Unsupported('unknown type %s in contract' % name)
        cands.sort(key=len)
        if '.' not in name:
            # unqualified names are the verified module's own types first (netpoll, then its sub-packages), never a same-named stdlib type
            own = [t for t in cands if t.startswith('github.com/cloudwego/netpoll')]
            if own: return pre + own[0]
        return pre + cands[0]

    # ------------------------------------------------------------------ obligations
    def site_ord(self, fn, bidx, iidx, sig):
        key = (fn.name, sig)
        if key not in self._ordcache:
            lst = []
            for b in fn.blocks:
                for i, ins in enumerate(b['instrs']):
                    if self.instr_sig(ins) == sig: lst.append((b['index'], i))
            self._ordcache[key] = lst
        try:
            return self._ordcache[key].index((bidx, iidx)) + 1
        except ValueError:
            return 0

    def instr_sig(self, ins):
        op = ins['op']
        if op == 'FieldAddr': return ('FieldAddr', ins['field'])
        if op in ('Call', 'Go', 'Defer'):
            if 'invoke' in ins: return ('Call', 'invoke.' + ins['invoke'])
            c = ins['callee']
            return ('Call', self.shortfn(c.get('name', '?')) if c['k'] in ('func', 'builtin') else ins.get('dynname', 'dyn'))
        if op == 'UnOp': return ('UnOp', ins['unop'])
        if op == 'BinOp': return ('BinOp', ins['binop'])
        return (op, '')

    def oblige(self, st, frame, kind, detail, goal, site=None, text=''):
        """record a proof obligation: pc ==> goal"""
        if z3.is_true(goal) if z3.is_expr(goal) else goal is True:
            return
        fn = frame.fn if frame else None
        where = ''
        nm = '%s/%s' % (self.cur, kind)
        if fn is not None and self.shortfn(fn.name) != self.cur:
            detail = '%s:%s' % (self.shortfn(fn.name), detail) if detail else self.shortfn(fn.name)
        if detail: nm += '/' + detail
        if site is not None:
            b, i, ins = site
            nm += '#%d' % self.site_ord(fn, b, i, self.instr_sig(ins))
            where = ins.get('pos', '')
        if not z3.is_expr(goal): goal = BoolVal(bool(goal))
        self.obls.append(Obl(nm, kind, list(st.pc), goal, list(st.trace), where, text))

    def shortfn(self, name):
        s = re.sub(r'[\w.\-]+(?:/[\w.\-]+)*/', '', name)
        return s.replace('netpoll.', '')

    # ------------------------------------------------------------------ operand values
    def val(self, o, frame, st):
        if o is None: return None
        k = o['k']
        if k == 'const':
            t = o['type']; kk = self.K(t)
            v = o['val']
            if v is None:
                return self.zero(t)
            if kk == 'bool': return BoolVal(bool(v))
            if kk == 'string': return self.strc(v)
            if kk == 'float':
                try:
                    from fractions import Fraction
                    return RealVal(str(Fraction(v)))
                except Exception:
                    return freal('fconst')
            if kk in ('int', 'unsafeptr', 'ptr'):
                return IntVal(int(v))
            return self.zero(t)
        if k in ('reg', 'param', 'freevar'):
            if o['name'] not in frame.regs:
                raise Unsupported('undefined register %s in %s' % (o['name'], frame.fn.short))
            return frame.regs[o['name']]
        if k == 'global':
            return self.global_addr(o['name'], o['elem'])
        if k == 'func':
            return FuncV(IntVal(self.p.typeid('fn:' + o['name']) + 1000), o['name'], [], t=o['type'])
        if k == 'builtin':
            return FuncV(IntVal(0), 'builtin:' + o['name'], [])
        raise Unsupported('operand kind ' + k)

    def global_addr(self, name, elemt):
        if self.K(elemt) == 'struct':
            if name not in self.globalrefs: self.globalrefs[name] = -(len(self.globalrefs) + 1)
            return IntVal(self.globalrefs[name])
        if self.K(elemt) == 'array':
            _, d = self.p.under(elemt)
            return Loc('global:' + short(name), (IntVal(0),), d['elem'], arrlen=d['len'])
        return Loc('global:' + short(name), (), elemt)

    # ------------------------------------------------------------------ integer semantics
    def wrap(self, v, t):
        """wrap mathematical v into the range of integer type t"""
        bits, signed = self.p.intinfo(t)
        if bits == 64 and signed:
            self.assumptions.add('64-bit signed integer arithmetic (int, int64) is treated as mathematical (no wrap-around)')
            return v
        if z3.is_int_value(v):
            x = v.as_long(); m = 1 << bits
            x %= m
            if signed and x >= m >> 1: x -= m
            return IntVal(x)
        m = 1 << bits
        if signed:
            h = m >> 1
            return ((v + h) % m) - h
        return v % m

    def bit(self, x, i):
        return (x / (1 << i)) % 2

    def bitand_const(self, x, c, bits):
        c &= (1 << bits) - 1
        if c == (1 << bits) - 1: return x
        terms = [self.bit(x, i) * (1 << i) for i in range(bits) if c >> i & 1]
        if not terms: return IntVal(0)
        r = terms[0]
        for t in terms[1:]: r = r + t
        return r

    def binop(self, st, frame, ins, op, x, y, t, xt, site):
        k = self.K(xt)
        if op in ('==', '!='):
            r = self.equal(x, y, xt)
            return r if op == '==' else Not(r)
        if k == 'string' and op == '+':
            xs, ys = x, y
            if xs.const is not None and ys.const is not None: return self.strc(xs.const + ys.const)
            return StrV(fint('concat'), xs.slen + ys.slen)
        if k == 'string':
            return fbool('strcmp')
        if k == 'float':
            return {'+': lambda: x + y, '-': lambda: x - y, '*': lambda: x * y, '/': lambda: x / y, '<': lambda: x < y, '<=': lambda: x <= y, '>': lambda: x > y, '>=': lambda: x >= y}[op]()
        if k == 'bool':
            if op == '&&': return And(x, y)
            if op == '||': return Or(x, y)
        if op in ('<', '<=', '>', '>='):
            return {'<': x < y, '<=': x <= y, '>': x > y, '>=': x >= y}[op]
        bits, signed = self.p.intinfo(t)
        sized = bits < 64 or not signed
        if op in ('+', '-', '*'):
            r = {'+': lambda: x + y, '-': lambda: x - y, '*': lambda: x * y}[op]()
            if sized: return self.wrap(r, t)
            if self.opts.get('overflow') and frame is not None:
                self.oblige(st, frame, 'overflow', op, And(r >= -(1 << 63), r <= (1 << 63) - 1), site)
            return r
        if op in ('/', '%'):
            self.oblige(st, frame, 'safety.div', '', y != 0, site)
            # Go truncated division; z3 is Euclidean/floor. express via sign cases.
            if op == '/':
                q = If(And(x >= 0, y > 0), x / y, If(And(x < 0, y > 0), -((-x) / y), If(And(x >= 0, y < 0), -(x / (-y)), (-x) / (-y))))
                return q
            r = If(x >= 0, x % If(y > 0, y, -y), -((-x) % If(y > 0, y, -y)))
            return r
        if op in ('&', '|', '^', '&^', '<<', '>>'):
            return self.bitop(op, x, y, bits, signed, t)
        raise Unsupported('binop %s on %s' % (op, xt))

    def bitop(self, op, x, y, bits, signed, t):
        xc = x.as_long() if z3.is_int_value(x) else None
        yc = y.as_long() if z3.is_int_value(y) else None
        if xc is not None and yc is not None:
            m = (1 << bits) - 1
            r = {'&': xc & yc, '|': xc | yc, '^': xc ^ yc, '&^': xc & ~yc, '<<': xc << yc, '>>': xc >> yc}[op]
            return self.wrap(IntVal(r), t)
        if op == '<<' and yc is not None:
            return self.wrap(x * (1 << yc), t)
        if op == '>>' and yc is not None:
            return x / (1 << yc) if not signed else If(x >= 0, x / (1 << yc), -((-x + (1 << yc) - 1) / (1 << yc)))
        if op == '&':
            if yc is not None and yc >= 0: return self.bit_fn('and', yc, bits)(x)
            if xc is not None and xc >= 0: return self.bit_fn('and', xc, bits)(y)
        if op == '|':
            c, v = (yc, x) if yc is not None else (xc, y)
            if c is not None and c >= 0: return self.bit_fn('or', c, bits)(v)
        if op == '&^' and yc is not None and yc >= 0:
            return self.bit_fn('andn', yc, bits)(x)
        self.assumptions.add('bit operation %s on symbolic operands abstracted (fresh value)' % op)
        return fint('bitop')

    def bit_fn(self, kind, c, bits):
        """x&c, x|c, x&^c for a constant mask c as uninterpreted functions over an abstract bit predicate hasbit(x,k);
        the defining axioms are added to every query (global axioms)"""
        c &= (1 << bits) - 1
        name = '%s!%d!%d' % (kind, c, bits)
        if name in self.bitfns: return self.bitfns[name]
        f = z3.Function(name, I, I)
        self.bitfns[name] = f
        x = Int('bx!x'); hb = self.hasbit
        ks = [k for k in range(bits) if c >> k & 1]
        if kind == 'and':
            val = sum([If(hb(x, k), IntVal(1 << k), IntVal(0)) for k in ks], IntVal(0))
            ax = And(f(x) == val, f(x) >= 0, f(x) <= c)
        elif kind == 'or':
            val = x + sum([If(hb(x, k), IntVal(0), IntVal(1 << k)) for k in ks], IntVal(0))
            ax = And(f(x) == val, *[hb(f(x), j) == (BoolVal(True) if j in ks else hb(x, j)) for j in range(bits)])
        else:
            val = x - sum([If(hb(x, k), IntVal(1 << k), IntVal(0)) for k in ks], IntVal(0))
            ax = And(f(x) == val, *[hb(f(x), j) == (BoolVal(False) if j in ks else hb(x, j)) for j in range(bits)])
        self.global_axioms.append(z3.ForAll([x], ax, patterns=[f(x)]))
        # bits of the small constants that flags are initialised with
        for n in range(0, 4):
            for j in range(min(bits, 8)):
                fact = hb(IntVal(n), j) == BoolVal(bool(n >> j & 1))
                if str(fact) not in self._bitconst:
                    self._bitconst.add(str(fact)); self.global_axioms.append(fact)
        return f

    def equal(self, x, y, t):
        if isinstance(x, IfaceV) or isinstance(y, IfaceV):
            if not isinstance(x, IfaceV): x = IfaceV(IntVal(0), IntVal(0)) if self.isnil(x) else x
            if not isinstance(y, IfaceV): y = IfaceV(IntVal(0), IntVal(0)) if self.isnil(y) else y
            if isinstance(x, IfaceV) and isinstance(y, IfaceV):
                return And(x.tag == y.tag, x.val == y.val)
        if isinstance(x, SliceV) or isinstance(y, SliceV):
            s = x if isinstance(x, SliceV) else y
            return s.arr == 0
        if isinstance(x, StrV) and isinstance(y, StrV):
            if x.const is not None and y.const is not None: return BoolVal(x.const == y.const)
            return And(x.sid == y.sid, x.slen == y.slen)
        if isinstance(x, FuncV) or isinstance(y, FuncV):
            f = x if isinstance(x, FuncV) else y
            return f.id == 0
        if isinstance(x, StructV) and isinstance(y, StructV):
            return And(*[self.equal(x.f[n], y.f[n], f['type']) for n, f in ((f['name'], f) for f in self.p.fields(x.t))])
        if isinstance(x, Loc) or isinstance(y, Loc):
            if isinstance(x, Loc) and isinstance(y, Loc):
                if x.key != y.key: return BoolVal(False)
                return And(*[a == b for a, b in zip(x.idx, y.idx)]) if x.idx else BoolVal(True)
            return BoolVal(False)   # address of a location is never nil
        if isinstance(x, Unknown) or isinstance(y, Unknown):
            return fbool('eq')
        return x == y

    def isnil(self, v):
        return z3.is_int_value(v) and v.as_long() == 0
