# gocv executor: instruction semantics, calls (contract / inline / extern), loops, defers, panics.
import re
import z3
from z3 import Int, IntVal, Bool, BoolVal, RealVal, And, Or, Not, Implies, If, Select, Store, K, ForAll
from ir import short
from vals import *


class PathLimit(Exception):
    pass


class ExecMixin:
    # ------------------------------------------------------------------ feasibility
    def feasible(self, st, cond):
        c = z3.simplify(cond) if z3.is_expr(cond) else BoolVal(bool(cond))
        if z3.is_true(c): return True
        if z3.is_false(c): return False
        s = z3.Solver(); s.set('timeout', self.branch_timeout)
        for f in st.pc:
            if not z3.is_quantifier(f) and not self.has_quant(f): s.add(f)
        s.add(c)
        r = s.check()
        return r != z3.unsat

    def has_quant(self, f):
        i = f.get_id()
        c = self._hq.get(i)
        if c is None:
            c = False
            stack = [f]; seen = set()
            while stack:
                x = stack.pop()
                if x.get_id() in seen: continue
                seen.add(x.get_id())
                if z3.is_quantifier(x): c = True; break
                stack.extend(x.children())
            self._hq[i] = c
        return c

    # ------------------------------------------------------------------ function / block execution
    def run_function(self, fn, args, st, k, kpanic, depth, bind=None, parent=None, contract=None):
        regs = {}
        for p, a in zip(fn.params, args): regs[p['name']] = a
        if bind is not None:
            for p, a in zip(fn.freevars, bind): regs[p['name']] = a
        fr = Frame(fn, regs, k, kpanic, depth, parent)
        fr.contract = contract
        for p, a in zip(fn.params, args): fr.names[p['name']] = (a, p['type'])
        if bind is not None:
            for p, a in zip(fn.freevars, bind): fr.names[p['name']] = (a, p['type'])
        if not fn.blocks:
            raise Unsupported('no body for %s' % fn.name)
        return fr

    def start(self, fr, st):
        self.run_block(fr, 0, None, st, 0)

    def defs(self, fn):
        if not hasattr(fn, '_defs'):
            d = {}
            for b in fn.blocks:
                for i, ins in enumerate(b['instrs']):
                    if 'name' in ins: d[ins['name']] = (b['index'], i, ins)
            fn._defs = d
        return fn._defs

    def run_block(self, fr, bidx, prev, st, start=0):
        fn = fr.fn
        b = fn.blocks[bidx]
        if start == 0:
            st.trace.append((fn.short, bidx))
            if len(st.trace) > self.opts.get('max_trace', 600):
                raise Unsupported('path too long in %s' % fn.short)
            lp = fn.loop_of_header(bidx)
            if lp is not None:
                r = self.loop_header(fr, lp, b, prev, st)
                if r is None: return
                start = r
        instrs = b['instrs']
        i = start
        while i < len(instrs):
            ins = instrs[i]
            op = ins['op']
            site = (bidx, i, ins)
            if op == 'Phi':
                e = ins['edges'][b['preds'].index(prev)]
                fr.regs[ins['name']] = self.val(e, fr, st)
                if ins.get('comment'): fr.names[ins['comment']] = (fr.regs[ins['name']], ins['type'])
            elif op == 'DebugRef':
                self.debugref(fr, st, ins)
            elif op == 'If':
                c = self.val(ins['cond'], fr, st)
                t_ok = self.feasible(st, c); f_ok = self.feasible(st, Not(c))
                outs = []
                if t_ok: outs.append((b['succs'][0], c))
                if f_ok: outs.append((b['succs'][1], Not(c)))
                for n, (succ, cond) in enumerate(outs):
                    last = n == len(outs) - 1
                    f2 = fr if last else fr.fork(); s2 = st if last else st.copy()
                    s2.assume(cond)
                    self.run_block(f2, succ, bidx, s2, 0)
                return
            elif op == 'Jump':
                self.run_block(fr, b['succs'][0], bidx, st, 0); return
            elif op == 'Return':
                vals = [self.val(r, fr, st) for r in ins['results']]
                fr.k(st, vals, fr); return
            elif op == 'Panic':
                self.do_panic(fr, st, site, explicit=True); return
            elif op == 'RunDefers':
                self.run_defers(fr, st, lambda s2, f2=fr, bi=bidx, pv=prev, ni=i + 1: self.run_block(f2, bi, pv, s2, ni))
                return
            elif op in ('Call', 'Go', 'Defer'):
                if op == 'Defer':
                    fr.defers.append((ins, [self.val(a, fr, st) for a in ins['args']], self.val(ins['callee'], fr, st) if 'callee' in ins else self.val(ins['recv'], fr, st)))
                else:
                    def cont(s2, v, f0=fr, ins=ins, bi=bidx, pv=prev, ni=i + 1, first=[True]):
                        f2 = f0 if first[0] else f0.fork()
                        # the first continuation may reuse the frame only if no other continuation follows; be safe: always fork
                        f2 = f0.fork()
                        if 'name' in ins and ins.get('type'):
                            f2.regs[ins['name']] = v
                        if self.ghost_events(f2):
                            sg = self.instr_sig(ins)
                            nm_ = self.shortfn(sg[1])
                            k_ = self.site_ord(f2.fn, bi, ni - 1, sg)
                            ex_ = None
                            if v is not None:
                                ex_ = {'result': (v, ins.get('type'))}
                                if isinstance(v, TupleV):
                                    _, td_ = self.p.under(ins.get('type'))
                                    for ti_, tv_ in enumerate(v.v): ex_['result%d' % ti_] = (tv_, td_['elems'][ti_])
                            self.run_ghost_event(f2, s2, 'after call %s#%d' % (nm_, k_), ex_)
                        self.run_block(f2, bi, pv, s2, ni)
                    if self.ghost_events(fr):
                        sg = self.instr_sig(ins)
                        try:
                            cv = self.val(ins['callee'], fr, st) if 'callee' in ins else self.val(ins['recv'], fr, st)
                        except Unsupported:
                            cv = None
                        ex0_ = {'callee': (cv, ins.get('sig'))} if cv is not None else {}
                        for ai_, ao_ in enumerate(ins['args']):
                            try: ex0_['arg%d' % ai_] = (self.val(ao_, fr, st), ao_['type'])
                            except Unsupported: pass
                        self.run_ghost_event(fr, st, 'before call %s#%d' % (self.shortfn(sg[1]), self.site_ord(fr.fn, bidx, i, sg)), ex0_ or None)
                    self.do_call(fr, st, ins, site, cont, spawn=(op == 'Go'))
                    return
            elif op == 'Select':
                self.do_select(fr, st, ins, site, lambda s2, v, f0=fr, ins=ins, bi=bidx, pv=prev, ni=i + 1: self._resume(f0, ins, v, bi, pv, s2, ni))
                return
            else:
                r = self.step(fr, st, site)
                if r == 'fork':
                    return
            i += 1
        raise Unsupported('fell off block %d of %s' % (bidx, fn.short))

    def _resume(self, f0, ins, v, bi, pv, s2, ni):
        f2 = f0.fork()
        if 'name' in ins: f2.regs[ins['name']] = v
        self.run_block(f2, bi, pv, s2, ni)

    def debugref(self, fr, st, ins):
        x = ins['x']
        if ins['isaddr']:
            if x['k'] == 'reg':
                d = self.defs(fr.fn).get(x['name'])
                if d and d[2]['op'] == 'Alloc' and x['name'] in fr.regs:
                    fr.names[ins['var']] = ('addr', fr.regs[x['name']], d[2]['elem'])
            return
        try:
            v = self.val(x, fr, st)
        except Unsupported:
            return
        if x['k'] in ('func', 'builtin', 'global'): return
        fr.names[ins['var']] = (v, x['type'])

    # ------------------------------------------------------------------ single instructions
    def step(self, fr, st, site):
        bidx, i, ins = site
        op = ins['op']; nm = ins.get('name')
        R = fr.regs
        V = lambda o: self.val(o, fr, st)
        if op == 'FieldAddr':
            x = V(ins['x'])
            if isinstance(x, (Loc, Unknown)): raise Unsupported('FieldAddr on %r' % (x,))
            self.oblige(st, fr, 'safety.nil', ins['field'], x != 0, site)
            st.assume(x != 0)
            R[nm] = self.field_loc(st, x, ins['struct'], ins['field'])
        elif op == 'Field':
            x = V(ins['x'])
            if not isinstance(x, StructV): raise Unsupported('Field on %r' % (x,))
            R[nm] = x.f[ins['field']]
        elif op == 'UnOp':
            u = ins['unop']; x = V(ins['x'])
            if u == '*':
                R[nm] = self.deref(st, fr, x, ins['type'], site)
            elif u == '-': R[nm] = self.wrap(-x, ins['type']) if self.K(ins['type']) == 'int' and self.p.intinfo(ins['type'])[0] < 64 else -x
            elif u == '!': R[nm] = Not(x)
            elif u == '^':
                bits, signed = self.p.intinfo(ins['type'])
                R[nm] = (-x - 1) if signed else ((1 << bits) - 1 - x)
            elif u == '<-':
                R[nm] = self.chan_recv(fr, st, x, ins, site)
            else: raise Unsupported('unop ' + u)
        elif op == 'BinOp':
            x, y = V(ins['x']), V(ins['y'])
            R[nm] = self.binop(st, fr, ins, ins['binop'], x, y, ins['type'], ins['x']['type'] if self.K(ins['x']['type']) != 'nil' else ins['y']['type'], site)
        elif op == 'Store':
            a = V(ins['addr']); v = V(ins['val'])
            gk = self.ghost_events(fr)
            if gk:
                fld = self.store_field(fr.fn, ins)
                k = self.store_ord(fr.fn, bidx, i, fld)
                self.run_ghost_event(fr, st, 'before store %s#%d' % (fld, k), {'value': (v, ins['val']['type'])})
                self.store(st, fr, a, v, ins['val']['type'], site)
                self.run_ghost_event(fr, st, 'after store %s#%d' % (fld, k), {'value': (v, ins['val']['type'])})
            else:
                self.store(st, fr, a, v, ins['val']['type'], site)
        elif op == 'Alloc':
            R[nm] = self.alloc(st, ins['elem'])
        elif op == 'IndexAddr':
            x = V(ins['x']); idx = V(ins['index'])
            R[nm] = self.index_addr(st, fr, x, idx, ins, site)
        elif op == 'Index':
            x = V(ins['x']); idx = V(ins['index'])
            if isinstance(x, StrV):
                self.oblige(st, fr, 'safety.index', 'string', And(idx >= 0, idx < x.slen), site)
                v = fint('strbyte'); st.assume(And(v >= 0, v <= 255)); R[nm] = v
            else: raise Unsupported('Index on %r' % (x,))
        elif op == 'Slice':
            R[nm] = self.do_slice(st, fr, ins, site)
        elif op in ('ChangeType', 'ChangeInterface'):
            R[nm] = V(ins['x'])
        elif op == 'Convert':
            R[nm] = self.convert(st, V(ins['x']), ins['x']['type'], ins['type'])
        elif op == 'MakeInterface':
            x = V(ins['x']); t = ins['x']['type']
            tag = IntVal(self.p.typeid(t))
            if z3.is_expr(x) and x.sort() == I: R[nm] = IfaceV(tag, x)
            elif isinstance(x, FuncV): R[nm] = IfaceV(tag, x.id, box=x)
            elif z3.is_expr(x) and x.sort() == B: R[nm] = IfaceV(tag, If(x, IntVal(1), IntVal(0)))
            else: R[nm] = IfaceV(tag, fint('box'), box=x)
        elif op == 'TypeAssert':
            R[nm] = self.type_assert(st, fr, V(ins['x']), ins, site)
        elif op == 'MakeClosure':
            fv = V(ins['fn'])
            import vals as _vals
            _vals._cnt[0] += 1
            cid = 5000 + _vals._cnt[0]
            f = FuncV(IntVal(cid), fv.name, [V(b) for b in ins['bindings']], t=ins['type'])
            st.closures[cid] = f
            R[nm] = f
        elif op == 'MakeSlice':
            ln, cp = V(ins['len']), V(ins['cap'])
            self.oblige(st, fr, 'safety.make', '', And(ln >= 0, ln <= cp), site)
            st.assume(And(ln >= 0, ln <= cp))
            arr = st.newref('slice')
            et = self.p.elem(ins['type'])
            self.zero_mem(st, arr, et)
            R[nm] = SliceV(arr, IntVal(0), ln, cp, et)
        elif op in ('MakeChan', 'MakeMap'):
            R[nm] = st.newref('chan')
            if op == 'MakeChan':
                self.chan_make(st, R[nm], V(ins['size']))
        elif op == 'Extract':
            t = V(ins['tuple'])
            if not isinstance(t, TupleV): raise Unsupported('Extract from %r' % (t,))
            R[nm] = t.v[ins['index']]
        elif op == 'Send':
            self.chan_send(fr, st, V(ins['chan']), V(ins['val']), ins, site)
        elif op == 'SliceToArrayPointer':
            raise Unsupported('SliceToArrayPointer')
        else:
            raise Unsupported('instruction ' + op)
        return None

    def alloc(self, st, et):
        k = self.K(et)
        if k == 'struct':
            r = st.newref('obj'); self.zero_init(st, r, et); self.no_dangling(st, r, et); return r
        if k == 'array':
            _, d = self.p.under(et)
            r = st.newref('arr'); self.zero_mem(st, r, d['elem'])
            return Loc('mem:' + self.skey(d['elem']), (r,), d['elem'], arrlen=d['len'])
        r = st.newref('cell')
        loc = Loc('cell:' + self.skey(et), (r,), et)
        z = self.zero(et)
        for (c, srt), x in zip(self.leaves(et), self.comps(z)):
            st.wr(loc.key + c, loc.idx, x, srt, log=False)
        return loc

    def no_dangling(self, st, r, et):
        """nothing (real or ghost pointer) can already point to an object that is only now allocated"""
        x = Int('nd!x')
        want = '*' + et
        self.key_ptr_type('')
        for key, t in self._kpt.items():
            if t == want:
                a = st.arr(key, 1, I)
                st.assume(z3.ForAll([x], Select(a, x) != r, patterns=[Select(a, x)]))

    def key_ptr_type(self, key):
        if not hasattr(self, '_kpt'):
            self._kpt = {}
            for tn, d in self.p.types.items():
                if d.get('kind') == 'struct' or (d.get('kind') == 'named' and self.K(tn) == 'struct'):
                    for f in self.p.fields(tn):
                        if self.K(f['type']) == 'ptr' and self.K(self.p.elem(f['type'])) == 'struct':
                            self._kpt[self.skey(tn) + '.' + f['name']] = f['type']
            for g, gt in self.c.ghostfields.items():
                if gt.startswith('*'):
                    tn, gf = g.rsplit('.', 1)
                    for full in self.p.types:
                        if self.match_type(full, tn) and self.p.desc(full).get('kind') == 'named':
                            self._kpt[self.ghost_key(full, gf)] = self.resolve_type(gt)
            for g, gt in self.c.ghostmaps.items():
                if gt.startswith('*'): self._kpt['ghost:' + g] = self.resolve_type(gt)
        return self._kpt.get(key)

    def zero_mem(self, st, arr, et):
        k = self.K(et)
        if k == 'struct':
            return   # elements addressed through elemref; contents unconstrained (not relied upon)
        key = 'mem:' + self.skey(et)
        z = self.zero(et)
        for (c, srt), x in zip(self.leaves(et), self.comps(z)):
            a = st.arr(key + c, 2, srt)
            st.heap[key + c] = Store(a, arr, K(I, x))

    def deref(self, st, fr, x, t, site):
        if isinstance(x, Loc):
            if x.arrlen is not None:
                return Unknown('array value')
            return self.load_loc(st, x)
        if isinstance(x, Unknown): raise Unsupported('deref of %r' % (x,))
        if self.K(t) == 'struct':
            self.oblige(st, fr, 'safety.nil', 'deref', x != 0, site); st.assume(x != 0)
            return self.load_struct(st, x, t)
        raise Unsupported('deref of int-valued pointer to %s' % t)

    def store(self, st, fr, a, v, vt, site):
        if isinstance(a, Loc):
            if a.arrlen is not None:
                if isinstance(v, Unknown): return
                raise Unsupported('store array value')
            self.store_loc(st, a, v)
            return
        if isinstance(a, Unknown): raise Unsupported('store through %r' % (a,))
        if self.K(vt) == 'struct':
            self.oblige(st, fr, 'safety.nil', 'store', a != 0, site); st.assume(a != 0)
            self.store_struct(st, a, vt, v); return
        raise Unsupported('store through int-valued pointer of %s' % vt)

    def index_addr(self, st, fr, x, idx, ins, site):
        if isinstance(x, SliceV):
            self.oblige(st, fr, 'safety.index', '', And(idx >= 0, idx < x.len), site)
            st.assume(And(idx >= 0, idx < x.len))
            et = x.et
            if self.K(et) == 'struct':
                r = self.elemref(et)(x.arr, self.at(x.base, idx))
                st.assume(r > 0)
                return r
            if self.K(et) == 'array':
                raise Unsupported('slice of arrays')
            return Loc('mem:' + self.skey(et), (x.arr, self.at(x.base, idx)), et)
        if isinstance(x, Loc) and x.arrlen is not None:
            self.oblige(st, fr, 'safety.index', 'array', And(idx >= 0, idx < x.arrlen), site)
            st.assume(And(idx >= 0, idx < x.arrlen))
            if self.K(x.t) == 'struct':
                # elements of an allocated array of structs are addressed like elements of a slice over that array (contents unconstrained)
                if not (x.key.startswith('mem:') and len(x.idx) == 1): raise Unsupported('array of structs inside a struct')
                r = self.elemref(x.t)(x.idx[0], self.at(IntVal(0), idx))
                st.assume(r > 0)
                return r
            return Loc(x.key, x.idx + (idx,), x.t)
        raise Unsupported('IndexAddr on %r' % (x,))

    def do_slice(self, st, fr, ins, site):
        x = self.val(ins['x'], fr, st)
        V = lambda o: self.val(o, fr, st) if o else None
        lo, hi, mx = V(ins['low']), V(ins['high']), V(ins['max'])
        if isinstance(x, SliceV):
            lo = lo if lo is not None else IntVal(0); hi = hi if hi is not None else x.len; mx = mx if mx is not None else x.cap
            g = And(0 <= lo, lo <= hi, hi <= mx, mx <= x.cap)
            self.oblige(st, fr, 'safety.slice', '', g, site); st.assume(g)
            # slicing a nil slice yields nil; a non-nil one keeps its array
            return SliceV(x.arr, x.base + lo, hi - lo, mx - lo, x.et)
        if isinstance(x, StrV):
            lo = lo if lo is not None else IntVal(0); hi = hi if hi is not None else x.slen
            g = And(0 <= lo, lo <= hi, hi <= x.slen)
            self.oblige(st, fr, 'safety.slice', 'string', g, site); st.assume(g)
            return StrV(fint('substr'), hi - lo)
        if isinstance(x, Loc) and x.arrlen is not None:
            n = IntVal(x.arrlen)
            lo = lo if lo is not None else IntVal(0); hi = hi if hi is not None else n; mx = mx if mx is not None else n
            g = And(0 <= lo, lo <= hi, hi <= mx, mx <= n)
            self.oblige(st, fr, 'safety.slice', 'array', g, site); st.assume(g)
            if len(x.idx) != 1: raise Unsupported('slice of nested array')
            if not x.key.startswith('mem:'):
                raise Unsupported('slice of array field %s' % x.key)
            return SliceV(x.idx[0], lo, hi - lo, mx - lo, x.t)
        raise Unsupported('Slice of %r' % (x,))

    def convert(self, st, x, ft, tt):
        fk, tk = self.K(ft), self.K(tt)
        if fk == 'int' and tk == 'int':
            fb, fs = self.p.intinfo(ft); tb, ts = self.p.intinfo(tt)
            if tb > fb and (ts or not fs): return x      # widening that preserves value
            if tb == fb and ts == fs: return x
            return self.wrap(x, tt)
        if fk == 'int' and tk == 'float': return z3.ToReal(x)
        if fk == 'float' and tk == 'int': return z3.ToInt(x)
        if fk == 'float' and tk == 'float': return x
        if tk == 'string' and fk == 'slice':
            return StrV(fint('str'), x.len)
        if tk == 'slice' and fk == 'string':
            arr = st.newref('bytes')
            return SliceV(arr, IntVal(0), x.slen, x.slen, self.p.elem(tt))
        if tk == 'string' and fk == 'int':
            return StrV(fint('str'), fint('slen'))
        if tk == 'unsafeptr' or fk == 'unsafeptr':
            if tk == 'int':   # uintptr(unsafe.Pointer(p))
                v = fint('uintptr'); st.assume(v >= 0); return v
            return x
        if fk == tk: return x
        raise Unsupported('convert %s -> %s' % (ft, tt))

    def type_assert(self, st, fr, x, ins, site):
        at = ins['asserted']; ak = self.K(at)
        if not isinstance(x, IfaceV): raise Unsupported('TypeAssert on %r' % (x,))
        if ak == 'iface':
            tagc = z3.simplify(x.tag)
            ok = None
            if z3.is_int_value(tagc):
                tn = self.p.typename_of_id(tagc.as_long())
                if tagc.as_long() == 0: ok = BoolVal(False)
                elif tn is not None:
                    imp = self.p.implements(tn, at)
                    if imp is not None: ok = BoolVal(imp)
            if ok is None:
                ok = fbool('implements')
                st.assume(Implies(x.tag == 0, Not(ok)))
                # known package types
                for tn in list(self.p._tid):
                    imp = self.p.implements(tn, at)
                    if imp is not None:
                        st.assume(Implies(x.tag == self.p.typeid(tn), BoolVal(imp) == ok))
            res = IfaceV(If(ok, x.tag, IntVal(0)), If(ok, x.val, IntVal(0)), box=x.box)
        else:
            ok = x.tag == self.p.typeid(at)
            if ak == 'func':
                res = x.box if isinstance(x.box, FuncV) else FuncV(If(ok, x.val, IntVal(0)), t=at)
                if isinstance(res, FuncV) and res.t is None: res.t = at
                if isinstance(x.box, FuncV):
                    res = FuncV(If(ok, x.val, IntVal(0)), x.box.name, x.box.bind, x.box.origin, at)
            elif ak in ('struct', 'slice', 'string'):
                res = x.box if x.box is not None else self.fresh(st, at, 'unboxed')
            elif ak == 'bool':
                res = If(ok, x.val != 0, BoolVal(False))
            else:
                res = If(ok, x.val, IntVal(0))
                if ak in ('ptr', 'chan', 'map'):
                    st.assume(Implies(ok, And(x.val >= 0, x.val <= st.alloc)))   # a boxed pointer is a pointer
                if ak == 'ptr' and isinstance(ins.get('x'), dict) and ins['x'].get('type') == 'error':
                    # well-formed error values: an `error` whose dynamic type is a pointer type holds a non-nil pointer.  netpoll's own
                    # creation sites are checked on every run by the @errwf scan (check.py); for errors made by the standard library,
                    # the kernel interface and user callbacks it is an assumption.
                    st.assume(Implies(ok, x.val != 0))
                    self.assumptions.add('error values are well formed: an error whose dynamic type is a pointer type holds a non-nil pointer (netpoll\'s own creation sites are checked by the @errwf scan; assumed of the standard library and of user code)')
        if ins['commaok']:
            return TupleV([res, ok])
        self.oblige(st, fr, 'safety.assert', short(at).split('.')[-1], ok, site)
        st.assume(ok)
        return res

    # ------------------------------------------------------------------ ghost code
    def ghost_events(self, fr):
        f = fr
        while f is not None:
            c = self.contract_for(f.fn)
            if c is not None and c.ghost: return c.ghost
            f = f.parent
        return None

    def store_field(self, fn, ins):
        a = ins['addr']
        if a['k'] == 'reg':
            d = self.defs(fn).get(a['name'])
            if d and d[2]['op'] == 'FieldAddr': return d[2]['field']
            if d and d[2]['op'] == 'IndexAddr': return 'elem'
        return 'cell'

    def store_ord(self, fn, bidx, i, fld):
        key = (fn.name, 'storeord', fld)
        if key not in self._ordcache:
            lst = []
            for b in fn.blocks:
                for j, x in enumerate(b['instrs']):
                    if x['op'] == 'Store' and self.store_field(fn, x) == fld: lst.append((b['index'], j))
            self._ordcache[key] = lst
        return self._ordcache[key].index((bidx, i)) + 1

    def run_ghost_event(self, fr, st, event, extra=None):
        """ghost statements attached to `event` in the contract of the executing function, and (for instructions of
        helpers inlined into it) in the contracts of the enclosing frames"""
        f = fr
        origin = self.shortfn(fr.fn.name)
        while f is not None:
            c = self.contract_for(f.fn)
            if c is not None:
                want = event if f is fr else origin + '/' + event   # events of inlined helpers are qualified by the helper's name
                for ev, stmts, txt in c.ghost:
                    if ev == want:
                        self.fired_events.add((c.name, ev))
                        env = self.mkenv(f, st, extra)
                        try:
                            self.run_ghost(stmts, env, f, st, txt)
                        except Unsupported as ex:
                            # the event now binds to an instruction where its ghost code cannot be evaluated (an inserted call shifted the
                            # ordinal, a local was renamed): undecided by itself, execution goes on so that real failures still show
                            self.oblige(st, f, 'ghost.eval', re.sub(r'\s+', '_', ev), BoolVal(False), None, text='ghost code of event %r cannot be evaluated where it binds: %s' % (ev, ex))
            f = f.parent

    def is_ghost_key(self, key):
        if key.startswith('ghost:'): return True
        for g in self.c.ghostfields:
            tn, gf = g.rsplit('.', 1)
            if key.endswith('.' + gf) and (key[:-len(gf) - 1] == tn or key[:-len(gf) - 1].endswith('.' + tn)): return True
        return False

    def run_ghost(self, stmts, env, fr, st, txt=''):
        for s in stmts:
            k = s[0]
            if k == 'assign':
                lv = self.ev_lval(s[1], env)
                v, t = self.ev(s[2], env)
                if len(lv) != 1: raise Unsupported('ghost assignment to composite location in %r' % txt)
                key, idx, srt = lv[0]
                if not self.is_ghost_key(key): raise Unsupported('ghost code may only assign ghost state (%s) in %r' % (key, txt))
                if isinstance(v, SliceV): v = v.arr
                if z3.is_expr(v) and v.sort() != srt:
                    if srt == R and v.sort() == I: v = z3.ToReal(v)
                if z3.is_expr(v) and not (z3.is_const(v) or z3.is_int_value(v)) and 'If(' in str(v):
                    # keep stored values pattern-friendly (an ite inside an array term makes every pattern over that array invalid)
                    fv_ = z3.FreshConst(srt, 'gv'); st.assume(fv_ == v); v = fv_
                st.wr(key, idx, v, srt)
            elif k == 'forall':
                _, vn, tn, lhs, rhs = s
                qv = Int('g!' + vn)
                t = self.resolve_type(tn) if tn not in ('int',) else 'int'
                e2 = dict(env); e2['vars'] = dict(env['vars']); e2['vars'][vn] = (qv, t)
                lv = self.ev_lval(lhs, e2)
                if len(lv) != 1: raise Unsupported('ghost forall assignment to composite location')
                key, idx, srt = lv[0]
                if not self.is_ghost_key(key): raise Unsupported('ghost code may only assign ghost state (%s)' % key)
                if len(idx) != 1 or not idx[0].eq(qv): raise Unsupported('ghost forall must assign m.f of the bound variable')
                v, _ = self.ev(rhs, e2)
                if z3.is_expr(v) and v.sort() != srt and srt == R: v = z3.ToReal(v)
                st.arr(key, 1, srt)
                # fresh array with a defining axiom (a lambda term would be rejected inside quantifier patterns)
                newarr = z3.Const('H!' + fresh_name(key), z3.ArraySort(I, srt))
                st.assume(z3.ForAll([qv], Select(newarr, qv) == v, patterns=[Select(newarr, qv)]))
                st.heap[key] = newarr
                st.writes.append((key, None))
            elif k == 'assert':
                self.oblige(st, fr, 'ghost.assert', re.sub(r'\s+', '_', txt.partition(':')[0].strip()) if txt else '', self.ev_bool(s[1], env), None, text=s[2])
                st.assume(self.ev_bool(s[1], env))
            elif k == 'assume':
                self.assumptions.add('%s: ghost assume %s' % (self.cur, s[2]))
                st.assume(self.ev_bool(s[1], env))
            elif k == 'if':
                c = self.ev_bool(s[1], env)
                # ghost conditionals are executed as guarded updates: fork-free by evaluating on a copy and merging is
                # not supported; instead require the condition to be decided on this path
                if self.feasible(st, c) and not self.feasible(st, Not(c)):
                    self.run_ghost(s[2], env, fr, st, txt)
                elif self.feasible(st, c):
                    raise Unsupported('ghost if with undecided condition in %r' % txt)
            elif k == 'call':
                call = s[1]
                name = call[1][1]
                if name not in self.c.ghostprocs: raise Unsupported('unknown ghost proc %s' % name)
                ps, body = self.c.ghostprocs[name]
                vars = {}
                for (pn, pt), a in zip(ps, call[2]):
                    v, t = self.ev(a, env)
                    vars[pn] = (v, t if t not in (None, 'nil') else self.try_resolve(pt))
                e2 = {'st': st, 'old': env['old'], 'vars': vars, 'fr': None}
                self.run_ghost(body, e2, fr, st, txt)

    # ------------------------------------------------------------------ panics and defers
    def do_panic(self, fr, st, site, explicit=False, what='panic'):
        if explicit:
            c = fr.contract
            top = fr
            while top.parent is not None: top = top.parent
            allowed = top.contract is not None and 'panics' in top.contract.flags
            if not allowed:
                self.oblige(st, fr, 'safety.panic', what, BoolVal(False), site)
        self.unwind(fr, st)

    def unwind(self, fr, st):
        """panic propagation: run deferred calls of fr, then continue in the caller"""
        def after(s2, f=fr):
            f.kpanic(s2, f)
        self.run_defers(fr, st, after)

    def run_defers(self, fr, st, k):
        if not fr.defers:
            k(st); return
        ins, args, fv = fr.defers.pop()
        def cont(s2, v, f=fr, k=k):
            self.run_defers(f, s2, k)
        self.call_value(fr, st, ins, (0, 0, ins), fv, args, cont, deferred=True)

    # ------------------------------------------------------------------ loops
    def loop_header(self, fr, lp, b, prev, st):
        """returns index of first non-phi instruction to continue at, or None when the path stops here"""
        fn = fr.fn
        c = self.contract_for(fn)
        spec = c.loops.get(lp['ordinal']) if c else None
        phis = [x for x in b['instrs'] if x['op'] == 'Phi']
        nphi = 0
        for x in b['instrs']:
            if x['op'] in ('Phi',): nphi += 1
            elif x['op'] == 'DebugRef' and nphi == len(phis): pass
            else: break
        h = b['index']
        back = prev in lp['body']
        if spec is None and self.opts.get('unroll') is None:
            # a loop the contract says nothing about (e.g. added by a later edit): cut it with the invariant `true` - everything the loop may
            # write is havoced (sound over-approximation); what the code after the loop needs from it then simply cannot be proved
            spec = {'invariant': [], 'modifies': None, 'decreases': None, 'unroll': None}
            self.assumptions.add('loop %d of %s has no invariant in its contract: cut with `true` (all state the loop may modify is havoced)' % (lp['ordinal'], fn.short))
        if spec is None or (not spec['invariant'] and spec.get('unroll') is not None) or (spec and spec.get('unroll') is not None):
            # bounded unrolling (tier B) with an unwinding assertion
            n = (spec or {}).get('unroll')
            if n is None: n = self.opts.get('unroll')
            if n is None:
                raise Unsupported('loop %d of %s has no invariant' % (lp['ordinal'], fn.short))
            cnt = fr.unroll.get(h, 0)
            if back:
                cnt += 1; fr.unroll[h] = cnt
                if cnt > n:
                    self.oblige(st, fr, 'unwind', 'loop%d' % lp['ordinal'], BoolVal(False), None)
                    return None
            else:
                fr.unroll[h] = 0
            return 0
        vals = {}
        for x in phis:
            vals[x['name']] = self.val(x['edges'][b['preds'].index(prev)], fr, st)
        env = self.loop_env(fr, st, phis, vals)
        tag = 'keep' if back and fr.inloop.get(h) is not None else 'init'
        import cparse as _cp
        for n, (txt, ast) in enumerate(spec['invariant']):
            parts = self.split_conj(ast)
            for j, a in enumerate(parts):
                g = self.ev_bool(a, env)
                nm = '%d' % (n + 1) if len(parts) == 1 else '%d.%d' % (n + 1, j + 1)
                self.oblige(st, fr, 'inv.%s' % tag, 'loop%d.%s' % (lp['ordinal'], nm), g, None, text=_cp.show(a) if len(parts) > 1 else txt)
        if tag == 'keep':
            if spec.get('decreases'):
                m_new = self.ev(spec['decreases'][1], env)[0]
                m_old = fr.inloop[h][1]
                self.oblige(st, fr, 'dec', 'loop%d' % lp['ordinal'], And(m_new < m_old, m_old >= 0) if m_old is not None else BoolVal(True), None)
            self.path_ends.append(('loopcut', list(st.trace)))
            return None
        # first arrival: cut. havoc what the loop may modify, assume the invariant.
        mods = self.loop_mods(fn, lp, spec)
        for key in mods:
            if key == 'mem:*':
                for k2 in list(st.sorts):
                    if k2.startswith('mem:'): st.havoc(k2, log=False)
                st.fresh_on_create.add('mem:*')
                continue
            st.havoc(key, log=False)
        st.bump_alloc()
        for x in phis:
            v = self.fresh(st, x['type'], 'loop.' + (x.get('comment') or x['name']))
            fr.regs[x['name']] = v
            if x.get('comment'): fr.names[x['comment']] = (v, x['type'])
        env = self.loop_env(fr, st, phis, {x['name']: fr.regs[x['name']] for x in phis})
        for txt, ast in spec['invariant']:
            st.assume(self.ev_bool(ast, env))
        fr.inloop[h] = (True, self.ev(spec['decreases'][1], env)[0] if spec.get('decreases') else None)
        # continue after the phis
        return len(phis) if all(x['op'] == 'Phi' for x in b['instrs'][:len(phis)]) else self._skip_phis(b)

    def _skip_phis(self, b):
        # phis are always first in an SSA block; DebugRefs may be interleaved after them
        n = 0
        for x in b['instrs']:
            if x['op'] == 'Phi': n += 1
            else: break
        return n

    def loop_env(self, fr, st, phis, vals):
        env = self.mkenv(fr, st)
        for x in phis:
            if x.get('comment'): env['vars'][x['comment']] = (vals[x['name']], x['type'])
        return env

    def loop_mods(self, fn, lp, spec):
        if spec and spec.get('modifies') is not None:
            keys = set()
            for m in spec['modifies']:
                keys |= self.mod_entry_keys(m, fn)
            return keys
        keys = self.static_mods(fn, lp['body'], set())
        c = self.contract_for(fn)
        if c is not None and c.ghost:
            for ev, stmts, txt in c.ghost:
                b_ = self.ghost_event_block(fn, ev)
                if b_ is None or b_ in lp['body']:
                    keys |= self.ghost_stmt_keys(stmts)
        return keys

    def ghost_event_block(self, fn, ev):
        """block index of the instruction a ghost event is attached to (None if unknown: treated as inside every loop)"""
        m = re.match(r'(before|after) (store|call) (.+)#(\d+)$', ev)
        if not m:
            return -1 if ev in ('at return', 'at entry') else None
        kind, name, k = m.group(2), m.group(3), int(m.group(4))
        n = 0
        for b in fn.blocks:
            for i, ins in enumerate(b['instrs']):
                if kind == 'store' and ins['op'] == 'Store' and self.store_field(fn, ins) == name:
                    n += 1
                    if n == k: return b['index']
                if kind == 'call' and ins['op'] in ('Call', 'Go', 'Defer'):
                    sg = self.instr_sig(ins)
                    if self.shortfn(sg[1]) == name:
                        n += 1
                        if n == k: return b['index']
        return None

    def ghost_stmt_keys(self, stmts):
        """ghost keys a list of ghost statements may assign (over-approximation, by name)"""
        ks = set()
        def lhs_keys(a):
            if a[0] == 'field':
                for g in self.c.ghostfields:
                    tn, gf = g.rsplit('.', 1)
                    if gf == a[2]:
                        for full in self.p.types:
                            if self.match_type(full, tn) and self.p.desc(full).get('kind') == 'named': ks.add(self.ghost_key(full, gf))
            elif a[0] == 'index': lhs_keys(a[1])
            elif a[0] == 'id': ks.add('ghost:' + a[1])
        for s_ in stmts:
            if s_[0] == 'assign': lhs_keys(s_[1])
            elif s_[0] == 'forall': lhs_keys(s_[3])
            elif s_[0] == 'if': ks.update(self.ghost_stmt_keys(s_[2]))
            elif s_[0] == 'call':
                nm = s_[1][1][1]
                if nm in self.c.ghostprocs: ks.update(self.ghost_stmt_keys(self.c.ghostprocs[nm][1]))
        return ks

    def static_mods(self, fn, blocks, seen):
        keys = set()
        if (fn.name, tuple(sorted(blocks)) if blocks is not None else None) in seen: return keys
        seen.add((fn.name, tuple(sorted(blocks)) if blocks is not None else None))
        defs = self.defs(fn)
        for b in fn.blocks:
            if blocks is not None and b['index'] not in blocks: continue
            for ins in b['instrs']:
                op = ins['op']
                if op == 'Store':
                    keys |= self.static_addr_keys(fn, ins['addr'], defs)
                elif op in ('Call', 'Defer', 'Go'):
                    keys |= self.static_call_mods(fn, ins, defs, seen)
                elif op == 'Send':
                    keys |= {'chan.count'}
        return keys

    def all_keys(self):
        ks = set()
        for tn, d in self.p.types.items():
            if d.get('kind') == 'named' and self.K(tn) == 'struct' and 'netpoll' in tn:
                ks |= self.struct_keys(tn)
        for g in self.c.ghostfields:
            tn, gf = g.rsplit('.', 1)
            for full in self.p.types:
                if self.match_type(full, tn) and self.p.desc(full).get('kind') == 'named': ks.add(self.ghost_key(full, gf))
        for g in list(self.c.ghostmaps) + list(self.c.ghostglobals): ks.add('ghost:' + g)
        ks |= self.keys_of('mem:uint8', 'uint8') | self.keys_of('mem:[]uint8', '[]byte')
        return ks

    def world_keys(self):
        """everything another thread or a user callback may change: all keys except thread-local ghost state"""
        ks = set(self.all_keys())
        for g in self.c.threadlocal_fields:
            tn, gf = g.rsplit('.', 1)
            for full in self.p.types:
                if self.match_type(full, tn) and self.p.desc(full).get('kind') == 'named': ks.discard(self.ghost_key(full, gf))
        for g in self.c.ghostglobals: ks.discard('ghost:' + g)
        ks -= self.owned_keys()
        return ks

    def owned_keys(self):
        """struct fields declared `owned ... by f g h`: written only by the listed functions (checked by the @owned scan),
        which all run on one goroutine; not part of what callbacks or other threads may change"""
        if getattr(self, '_owned_keys', None) is not None: return self._owned_keys
        ks = set()
        for props, fields, funcs, src in self.c.owned:
            for tf in fields:
                if tf.startswith('global:'):
                    for g, gt in self.p.globals.items():
                        if self.shortfn(g) == tf[7:]:
                            ks |= self.keys_of('global:' + short(g), gt) if self.K(gt) != 'struct' else self.struct_keys(gt)
                    continue
                tn, fnm = tf.rsplit('.', 1)
                for full in self.p.types:
                    if self.match_type(full, tn) and self.p.desc(full).get('kind') == 'named':
                        for f in self.p.fields(full):
                            if f['name'] == fnm:
                                if self.K(f['type']) == 'struct': ks |= self.struct_keys(f['type'])
                                else: ks |= self.keys_of(self.skey(full) + '.' + fnm, f['type'])
        self._owned_keys = ks
        return ks

    def keys_of(self, key, t):
        k = self.K(t)
        if k == 'array':
            _, d = self.p.under(t); return self.keys_of(key, d['elem'])
        if k == 'struct':
            return set()
        return {key + c for c, _ in self.leaves(t)}

    def struct_keys(self, t):
        ks = set()
        for f in self.p.fields(t):
            if self.K(f['type']) == 'struct': ks |= self.struct_keys(f['type'])
            else: ks |= self.keys_of(self.skey(t) + '.' + f['name'], f['type'])
        return ks

    def static_addr_keys(self, fn, o, defs):
        if o['k'] == 'global':
            return self.keys_of('global:' + short(o['name']), o['elem']) if self.K(o['elem']) != 'struct' else self.struct_keys(o['elem'])
        if o['k'] != 'reg':
            t = self.p.elem(o['type'])
            if t and self.K(t) == 'struct': return self.struct_keys(t)
            return self.keys_of('cell:' + self.skey(t), t) if t else set()
        d = defs.get(o['name'])
        if d is None: return set()
        ins = d[2]; op = ins['op']
        if op == 'FieldAddr':
            ft = ins['ftype']
            if self.K(ft) == 'struct': return self.struct_keys(ft)
            return self.keys_of(self.skey(ins['struct']) + '.' + ins['field'], ft)
        if op == 'IndexAddr':
            xt = ins['x']['type']
            if self.K(xt) == 'slice':
                et = self.p.elem(xt)
                if self.K(et) == 'struct': return self.struct_keys(et)
                return self.keys_of('mem:' + self.skey(et), et)
            return self.static_addr_keys(fn, ins['x'], defs)
        if op == 'Alloc':
            et = ins['elem']
            if self.K(et) == 'struct': return self.struct_keys(et)
            if self.K(et) == 'array':
                _, dd = self.p.under(et); return self.keys_of('mem:' + self.skey(dd['elem']), dd['elem'])
            return self.keys_of('cell:' + self.skey(et), et)
        if op == 'Phi':
            ks = set()
            for e in ins['edges']:
                if e['k'] == 'reg' and e['name'] == o['name']: continue
                ks |= self.static_addr_keys(fn, e, {k: v for k, v in defs.items() if k != o['name']})
            return ks
        t = self.p.elem(ins.get('type', ''))
        if t and self.K(t) == 'struct': return self.struct_keys(t)
        if t: return self.keys_of('cell:' + self.skey(t), t)
        return set()

    def static_call_mods(self, fn, ins, defs, seen):
        keys = set()
        if 'invoke' in ins:
            c = self.c.funcs.get('iface ' + short(ins['iface']) + '.' + ins['invoke'])
            c = self.iface_contract(ins['iface'], ins['invoke'])
            if c is not None and c.modifies:
                for m in c.modifies: keys |= self.mod_entry_keys(m, None, c)
            return keys
        callee = ins['callee']
        if callee['k'] == 'builtin':
            if callee['name'] in ('copy', 'append'):
                t = ins['args'][0]['type']; et = self.p.elem(t)
                if et and self.K(et) != 'struct': keys |= self.keys_of('mem:' + self.skey(et), et)
            if callee['name'] == 'close': keys |= {'chan.closed'}
            return keys
        if callee['k'] == 'func':
            name = callee['name']
            return self.static_fn_mods(name, ins, fn, defs, seen)
        # dynamic call through a function value
        c = self.functype_contract(callee['type'], None)
        if c is not None and c.modifies:
            for m in c.modifies: keys |= self.mod_entry_keys(m, None, c)
        if callee['k'] == 'reg':
            d = defs.get(callee['name'])
            if d and d[2]['op'] == 'MakeClosure':
                keys |= self.static_fn_mods(d[2]['fn']['name'], ins, fn, defs, seen)
        return keys

    def static_fn_mods(self, name, ins, fn, defs, seen):
        keys = set()
        if name.endswith('$bound'): name = name[:-6]
        h = self.externs.get(name)
        if h is not None:
            m = getattr(h, 'mods', None)
            if m: keys |= m(self, fn, ins, defs)
            return keys
        c = self.c.funcs.get(short(name)) or self.c.funcs.get(self.shortfn(name))
        g = self.p.funcs.get(name)
        if c is not None and c.kind in ('func', 'extern') and not c.inline:
            for m in (c.modifies or []): keys |= self.mod_entry_keys(m, g, c)
            return keys
        if g is not None:
            return self.static_mods(g, None, seen)
        return keys

    def mod_entry_keys(self, entry, fn, c=None):
        """heap keys named by a modifies entry ('T.f', 'x.f', 'mem', 'mem:T', 'x.f[*]')"""
        e = entry.strip()
        if e == 'nothing': return set()
        if e == 'anything': return set(self.all_keys())
        if e == 'world': return set(self.world_keys())
        if e == 'mem:*':
            return {'mem:*'}
        if e.startswith('mem'):
            et = 'uint8'
            if ':' in e: et = self.resolve_type(e.split(':', 1)[1])
            return self.keys_of('mem:' + self.skey(et), et)
        if e.startswith('key:'):
            return {e[4:]}
        if e.split('[')[0] in self.c.ghostmaps or e in self.c.ghostglobals:
            return {'ghost:' + e.split('[')[0]}
        e = re.sub(r'\[[^\]]*\]', '', e)
        parts = e.split('.')
        if len(parts) < 2: raise Unsupported('bad modifies entry %r' % entry)
        root = parts[0]
        # location form x.f... : find type of x from function params/results
        t = None
        if fn is not None:
            for p in fn.params + fn.freevars + fn.results:
                if p['name'] == root: t = p['type']
        if t is None:
            try:
                t = self.resolve_type(root)
            except Unsupported:
                try:
                    t = self.resolve_type(parts[0] + '.' + parts[1]); parts = [parts[0] + '.' + parts[1]] + parts[2:]
                except (Unsupported, IndexError):
                    raise Unsupported('modifies entry %r: unknown root' % entry)
        else:
            if self.K(t) == 'ptr': t = self.p.elem(t)
        for fname in parts[1:-1]:
            path = self.p.find_field_path(t, fname)
            if not path: raise Unsupported('modifies entry %r: no field %s' % (entry, fname))
            t = path[-1]['type']
            if self.K(t) == 'ptr': t = self.p.elem(t)
        last = parts[-1]
        gk = None
        for g, gt in self.c.ghostfields.items():
            tn, gf = g.rsplit('.', 1)
            if gf == last and self.match_type(t, tn):
                return {self.ghost_key(t, last)}
        path = self.p.find_field_path(t, last)
        if not path: raise Unsupported('modifies entry %r: no field %s in %s' % (entry, last, t))
        owner = t
        for f in path[:-1]: owner = f['type']
        ft = path[-1]['type']
        if self.K(ft) == 'struct': return self.struct_keys(ft)
        return self.keys_of(self.skey(owner) + '.' + last, ft)
