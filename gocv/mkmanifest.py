#!/usr/bin/env python3
"""regenerate /verif/MANIFEST.json and gocv/not_decided.json from claims.py (run after contracts changed)"""
import json, os, subprocess, sys
ROOT = os.path.dirname(os.path.dirname(os.path.abspath(__file__)))
sys.path.insert(0, os.path.join(ROOT, 'gocv'))
from claims import CLAIMS, NOT_APPLICABLE, TECH
m = json.load(open(os.path.join(ROOT, 'MANIFEST.json')))
commits = subprocess.check_output(['git', '-C', '/repo', 'log', '--format=%H %s']).decode().splitlines()
m['hooks']['source_commits'] = [l.split()[0] for l in commits if l.split(' ', 1)[1].startswith('verif:')]
m['hooks']['enable'] = "go build -tags verif (the guarded files zz_contracts_*_verif.go hold only //@ contract comments; the checks read them and the go/ssa of /repo loaded with -tags verif)"
m['engines'][0]['serves_properties'] = sorted(CLAIMS)
checks = []
for pid in sorted(CLAIMS):
    c = CLAIMS[pid]
    checks.append({
        'property_id': pid,
        'quick_cmd': 'python3-vt gocv/check.py %s --tier quick' % pid,
        'thorough_cmd': 'python3-vt gocv/check.py %s --tier thorough' % pid,
        'evidence_file': '/verif/evidence/%s.json' % pid,
        'replay_cmd_template': 'python3-vt gocv/replay.py {path}',
        'engine': 'gocv',
        'level_claimed': {'category': 'proof', 'text': c['text'], 'design_ref': 'DESIGN.md section 0 (build report) and section 7 %s' % pid},
        'level_note': c['note'] + ' Not decided: ' + '; '.join(c['nd']) + '.',
        'technique': TECH,
    })
m['checks'] = checks
m['not_applicable'] = [{'property_id': k, 'reason': v} for k, v in sorted(NOT_APPLICABLE.items())]
json.dump(m, open(os.path.join(ROOT, 'MANIFEST.json'), 'w'), indent=1)
json.dump({k: v['nd'] for k, v in CLAIMS.items()}, open(os.path.join(ROOT, 'gocv', 'not_decided.json'), 'w'), indent=1)
print('MANIFEST.json: %d checks, %d not applicable, %d hook commits' % (len(checks), len(m['not_applicable']), len(m['hooks']['source_commits'])))
