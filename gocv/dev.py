#!/usr/bin/env python3
# developer driver: verify named functions and print every obligation result
import sys, os, json, time, traceback
sys.path.insert(0, os.path.dirname(os.path.abspath(__file__)))
import ir, cparse
from verify import Verifier
from vals import Unsupported

def main():
    args = sys.argv[1:]
    repo = '/repo'
    opts = {'nilrecv': True}
    names = []
    verbose = False
    show = False
    while args:
        a = args.pop(0)
        if a == '--repo': repo = args.pop(0)
        elif a == '--unroll': opts['unroll'] = int(args.pop(0))
        elif a == '-v': verbose = True
        elif a == '--show': show = True
        elif a == '--timeout': opts['timeout'] = int(args.pop(0))
        else: names.append(a)
    t0 = time.time()
    prog = ir.load_program(repo)
    cs = cparse.load_contracts(repo, extra_files=sorted(__import__('glob').glob(os.path.join(ir.ROOT, 'contracts', '*_verif.go'))))
    print('loaded %d funcs, %d contracts in %.1fs' % (len(prog.funcs), len(cs.funcs), time.time() - t0))
    if not names: names = [n for n, c in cs.funcs.items() if c.kind == 'func' and not c.trusted]
    tot = bad = 0
    for n in names:
        v = Verifier(prog, cs, opts)
        t1 = time.time()
        try:
            v.verify_function(n)
        except Unsupported as e:
            print('%-50s UNSUPPORTED: %s' % (n, e)); 
            if verbose: traceback.print_exc()
            continue
        except Exception as e:
            print('%-50s ENGINE ERROR: %s: %s' % (n, type(e).__name__, e))
            tb = traceback.format_exc().strip().split('\n')
            print('      ' + '\n      '.join(tb[-6:]))
            continue
        gen = time.time() - t1
        v.solve_all(opts.get('timeout', 10000))
        # aggregate per name
        agg = {}
        for o in v.obls:
            ok = (o.result == 'unsat') if o.expect == 'unsat' else (o.result == 'sat')
            if o.expect == 'sat' and o.kind == 'smoke':
                agg.setdefault(o.name, []).append(o); continue
            agg.setdefault(o.name, []).append(o)
        nb = 0
        for nm, os_ in agg.items():
            if os_[0].kind == 'smoke':
                ok = any(o.result == 'sat' for o in os_)
            elif os_[0].expect == 'sat':
                ok = all(o.result != 'unsat' for o in os_)
            else:
                ok = all(o.result == 'unsat' for o in os_)
            tot += 1
            if not ok:
                nb += 1; bad += 1
                print('   FAIL %-60s %s  [%s] %s' % (nm, [o.result for o in os_ if o.result != 'unsat'][:3], os_[0].where, os_[0].text[:200]))
                if show:
                    for o in os_:
                        if o.result == 'sat' and o.model: print('        model: %s' % o.model)
                        if o.result != 'unsat': print('        path(%s): %s' % (o.result, ' '.join('%s' % (b if f == n else '%s:%s' % (f, b)) for f, b in o.trace)))
            elif verbose or sum(o.time for o in os_) > 1:
                print('   ok   %-60s %d paths %.2fs' % (nm, len(os_), sum(o.time for o in os_)))
        print('%-50s %d names, %d instances, %d paths, %d failed, gen %.1fs solve %.1fs' % (n, len(agg), len(v.obls), v.npaths, nb, gen, time.time() - t1 - gen))
    print('TOTAL %d obligations, %d not discharged, %.1fs' % (tot, bad, time.time() - t0))

main()
