#!/usr/bin/env python3
# print the SSA of a function (short name) as the engine sees it
import sys, os, json
sys.path.insert(0, os.path.dirname(os.path.abspath(__file__)))
import ir, re
prog = ir.load_program(sys.argv[2] if len(sys.argv) > 2 else '/repo')
def shortfn(name):
    return re.sub(r'[\w.\-]+(?:/[\w.\-]+)*/', '', name).replace('netpoll.', '')
for f in prog.funcs.values():
    if shortfn(f.name) == sys.argv[1]:
        print(f.name, [(p['name'], shortfn(p['type'])) for p in f.params], [(p['name'], shortfn(p['type'])) for p in f.freevars], f.results)
        print('loops:', [(l['ordinal'], l['header'], sorted(l['body'])) for l in f.loops()])
        for b in f.blocks:
            print(b['index'], b['comment'], b['preds'], b['succs'])
            for i in b['instrs']:
                if i['op'] == 'DebugRef': continue
                def sh(o):
                    if isinstance(o, dict) and 'k' in o: return o.get('name', o.get('val'))
                    return o
                x = {k: (sh(v) if not isinstance(v, list) else [sh(y) for y in v]) for k, v in i.items() if k not in ('pos', 'type', 'sig', 'op', 'name', 'struct', 'fieldidx', 'ftype', 'commaok')}
                print('   ', i.get('name', ''), i['op'], {k: (shortfn(v) if isinstance(v, str) else v) for k, v in x.items()})
