import re
# gocv verifier: verifies one function against its contract and discharges the obligations.
import os, sys, time, subprocess, tempfile, hashlib, traceback
import z3
from z3 import IntVal, BoolVal, And, Or, Not, Implies
from ir import short
from vals import *
from engine import Engine
import cparse


class Verifier(Engine):
    def find_fn(self, name):
        for f in self.p.funcs.values():
            if self.shortfn(f.name) == name: return f
        return None

    def verify_function(self, name):
        """symbolically execute function `name` (short form) against its contract; fills self.obls"""
        base = name.split(' @')[0]
        fn = self.find_fn(base)
        c = self.c.funcs.get(name)
        if fn is None: raise Unsupported('function %s not found in /repo (contract-unbound)' % base)
        self.cur = name; self.top_name = fn.name
        self.top_contract = c if ' @' in name else None
        self.top_uses = {}
        if c is not None and c.flags.get('uses'):
            for u in c.flags['uses'].split(','):
                u = u.strip()
                uc = self.c.funcs.get(u)
                if uc is None: raise Unsupported('contract-error: %s uses unknown contract %s' % (name, u))
                self.top_uses[u.split(' @')[0]] = uc
            if self.top_contract is None: self.top_contract = c
        self.fired_events = set()
        if c is not None and c.flags.get('implements'):
            own = set(); allowed = set()
            for m in (c.modifies or []): own |= set(self.mod_entry_keys(m.strip(), fn, c)) if m.strip() not in ('world', 'anything', 'nothing') else {m.strip()}
            for m in c.flags.get('implements_modifies', []): allowed |= set(self.mod_entry_keys(m.strip(), fn, c)) if m.strip() not in ('world', 'anything', 'nothing') else {m.strip()}
            own.discard('nothing')
            if 'world' in allowed or 'anything' in allowed: own = set()
            extra = sorted(k for k in own - allowed if not k.startswith('ghost:') or True)
            if extra: raise Unsupported('contract-error: %s modifies %s, which the interface contract %s does not allow' % (name, ', '.join(extra[:6]), c.flags['implements']))
        import vals as _v
        _v._cnt[0] = 0
        st = State()
        st.assume(self.at_axiom())
        args = []
        for i, p in enumerate(fn.params):
            v = self.fresh(st, p['type'], 'p.' + p['name'])
            args.append(v)
        bind = [self.fresh(st, p['type'], 'fv.' + p['name']) for p in fn.freevars]
        if fn.j.get('recv') and args and z3.is_expr(args[0]) and self.K(fn.params[0]['type']) == 'ptr' and 'nilable' not in c.flags:
            st.assume(args[0] != 0)
            self.assumptions.add('pointer receivers are non-nil (owed by every direct caller: safety.nilrecv obligations; assumed for calls through interfaces and function values)')
        # free variables that are cells of the enclosing function: model as fresh cells
        bind2 = []
        for p, v in zip(fn.freevars, bind):
            if self.K(p['type']) == 'ptr' and self.K(self.p.elem(p['type'])) != 'struct':
                et = self.p.elem(p['type'])
                r = fint('fvcell.' + p['name']); st.assume(And(r > 0, r <= st.alloc))
                if self.K(et) == 'array':
                    raise Unsupported('free variable of array type')
                v = Loc('cell:' + self.skey(et), (r,), et)
            bind2.append(v)
        bind = bind2
        results = []

        def k(s2, vals, f2):
            self.npaths += 1
            self.at_return(f2, s2, vals, c, fn)

        def kp(s2, f2):
            self.npaths += 1
            self.at_panic(f2, s2, c, fn)

        fr = self.run_function(fn, args, st, k, kp, 0, bind=bind, contract=c)
        for p_, v_ in zip(fn.freevars, bind):
            if isinstance(v_, Loc): fr.names[p_['name']] = ('addr', v_, v_.t)
        env = {'st': st, 'old': None, 'vars': {}, 'fr': fr}
        if c is not None:
            for txt, ast in c.requires:
                st.assume(self.ev_bool(ast, env))
            for txt, ast in c.assumes:
                st.assume(self.ev_bool(ast, env))
                self.assumptions.add('%s: assume %s' % (name, txt))
            for txt, ast in c.threadlocal:
                st.assume(self.ev_bool(ast, env))
        self.run_ghost_event(fr, st, 'at entry')
        entry = st.copy()
        fr.entry = entry
        fr.entry_env = {'st': entry, 'old': None, 'vars': {n: ((self.load_loc(entry, v[1], facts=False), v[2]) if isinstance(v[0], str) and v[0] == 'addr' and isinstance(v[1], Loc) else v) for n, v in fr.names.items()}, 'fr': None}
        # reach.entry: the precondition is satisfiable
        o = Obl('%s/reach/entry' % name, 'reach', list(st.pc), BoolVal(False), [], fn.pos, 'precondition satisfiable')
        o.expect = 'sat'
        self.obls.append(o)
        self.start(fr, st)
        # every ghost event of the contract must bind to an instruction that some explored path reaches
        # (always generated, so that the obligation is part of the lock and a contract that drifted away from the code is a violation)
        if c is not None and ' @' not in name:
            seen_ev = set()
            for ev, stmts, txt in c.ghost:
                if ev in seen_ev: continue
                seen_ev.add(ev)
                bound = (c.name, ev) in self.fired_events
                o = Obl('%s/ghost.bound/%s' % (name, re.sub(r'\s+', '_', ev)), 'ghost.bound', [], BoolVal(bound), [], fn.pos, 'ghost event %r binds to an instruction that an explored path reaches' % ev)
                self.obls.append(o)
        # `forbid <callee>, ...`: the body contains no call of the named callee (static; e.g. init must never close the caller's Conn)
        if c is not None and c.flags.get('forbid'):
            for nm_ in [x.strip() for x in c.flags['forbid'].split(',') if x.strip()]:
                hits = [i.get('pos', '') for b in fn.blocks for i in b['instrs'] if i['op'] in ('Call', 'Go', 'Defer') and self.instr_sig(i)[1] == nm_]
                o = Obl('%s/forbid/%s' % (name, nm_), 'forbid', [], BoolVal(not hits), [], hits[0] if hits else fn.pos, 'no call of %s in the body (found at: %s)' % (nm_, ', '.join(hits)))
                self.obls.append(o)
        return fn

    def result_env(self, fr, st, vals, fn):
        env = self.mkenv(fr, st)
        rs = fn.results
        c_ = self.contract_for(fn)
        rn = c_.flags.get('results', '').split() if c_ is not None else []
        for i, (r, v) in enumerate(zip(rs, vals)):
            n = (rn[i] if i < len(rn) else None) or r['name'] or ('result' if len(rs) == 1 else 'result%d' % i)
            env['vars'][n] = (v, r['type'])
            if len(rs) == 1: env['vars']['result'] = (v, r['type'])
        # at return, names are evaluated in the final state: parameters keep their entry values
        for p in fn.params:
            env['vars'].setdefault(p['name'], fr.entry_env['vars'].get(p['name']))
        return env

    def at_return(self, fr, st, vals, c, fn):
        self.path_ends.append(('return', list(st.trace)))
        if c is None: return
        if c.ghost:
            env0 = self.result_env(fr, st, vals, fn)
            for ev, stmts, txt in c.ghost:
                if ev == 'at return':
                    self.fired_events.add((c.name, ev))
                    self.run_ghost(stmts, env0, fr, st, txt)
        env = self.result_env(fr, st, vals, fn)
        for n, (txt, ast) in enumerate(c.ensures):
            parts = self.split_conj(ast)
            for j, a in enumerate(parts):
                g = self.ev_bool(a, env)
                nm = '%d' % (n + 1) if len(parts) == 1 else '%d.%d' % (n + 1, j + 1)
                self.oblige(st, None, 'post', nm, g, None, text=cparse.show(a) if len(parts) > 1 else txt)
        self.frame_check(fr, st, c, fn)
        o = Obl('%s/smoke/return' % self.cur, 'smoke', list(st.pc), BoolVal(False), list(st.trace), '', 'some return is reachable')
        o.expect = 'sat'
        self.obls.append(o)

    def at_panic(self, fr, st, c, fn):
        self.path_ends.append(('panic', list(st.trace)))
        if c is None: return
        txt = c.flags.get('onpanic')
        if txt:
            env = self.mkenv(fr, st)
            for p in fn.params:
                env['vars'].setdefault(p['name'], fr.entry_env['vars'].get(p['name']))
            for n, t in enumerate(txt.split(';;')):
                if t.strip():
                    self.oblige(st, None, 'onpanic', '%d' % (n + 1), self.ev_bool(cparse.parse_expr(t), env), None, text=t)

    def subst(self, ast, m):
        if not isinstance(ast, tuple): 
            if isinstance(ast, list): return [self.subst(x, m) for x in ast]
            return ast
        if ast[0] == 'id' and ast[1] in m: return m[ast[1]]
        if ast[0] == 'quant':
            m2 = {k: v for k, v in m.items() if k not in [n for n, _ in ast[2]]}
            return ('quant', ast[1], ast[2], [[self.subst(t, m2) for t in g] for g in ast[3]], self.subst(ast[4], m2))
        return tuple(self.subst(x, m) if isinstance(x, (tuple, list)) else x for x in ast)

    def expand_pred(self, ast):
        if ast[0] == 'call' and ast[1][0] == 'id' and ast[1][1] in self.c.pures:
            ps, rt, body, txt = self.c.pures[ast[1][1]]
            if rt == 'bool' and body[0] == 'bin' and body[1] == '&&' and len(ps) == len(ast[2]):
                if all(a[0] in ('id', 'num', 'field', 'nil', 'call', 'index', 'bin', 'comp') for a in ast[2]):
                    return self.subst(body, {pn: a for (pn, pt), a in zip(ps, ast[2])})
        return ast

    def split_conj(self, ast):
        ast = self.expand_pred(ast)
        if ast[0] == 'bin' and ast[1] == '==>':
            rhs = self.expand_pred(ast[3])
            if rhs is not ast[3]: ast = ('bin', '==>', ast[2], rhs)
        if ast[0] == 'bin' and ast[1] == '&&':
            return self.split_conj(ast[2]) + self.split_conj(ast[3])
        if ast[0] == 'bin' and ast[1] == '==>' and ast[3][0] == 'bin' and ast[3][1] == '&&':
            return [('bin', '==>', ast[2], x) for x in self.split_conj(ast[3])]
        return [ast]

    def _frame_check_rest(self, fr, st, c, fn, whole, extra):
        locs = {}
        entry_env = fr.entry_env
        for m in extra:
            e = m.strip()
            root = e.split('.')[0].split('[')[0]
            if root in entry_env['vars']:
                for key, idx, srt in self.ev_lval(cparse.parse_expr(e), entry_env): locs.setdefault(key, []).append(idx)
            else:
                whole |= self.mod_entry_keys(e, fn, c)
        alloc0 = fr.entry.alloc
        bykey = {}
        for key, idx in st.writes:
            if key in whole: continue
            bykey.setdefault(key, []).append(idx)
        for key, idxs in bykey.items():
            goals = []
            for idx in idxs:
                if idx is None: goals.append(BoolVal(False)); continue
                first = idx[0] if idx else None
                alts = []
                if first is not None and z3.is_expr(first): alts.append(first > alloc0)
                for a in locs.get(key, []):
                    if len(a) <= len(idx): alts.append(And(*[x == y for x, y in zip(a, idx) if y is not None]) if a else BoolVal(True))
                goals.append(Or(*alts) if alts else BoolVal(False))
            self.oblige(st, None, 'frame', key, And(*goals), None, text='writes to %s stay within modifies' % key)

    def frame_check(self, fr, st, c, fn):
        """every heap write on this path is to a fresh object or allowed by `modifies`"""
        whole = set(); locs = {}
        entry_env = fr.entry_env
        if c.modifies and any(m.strip() in ('anything', 'world') for m in c.modifies):
            # only thread-local ghost state is framed
            if any(m.strip() == 'anything' for m in c.modifies): return
            wk = self.world_keys()
            whole = set(wk)
            for key, idx in st.writes:
                if key.startswith(('mem:', 'cell:', 'sync/atomic.Value', 'chan.', 'global:')): whole.add(key)
            extra = [m for m in c.modifies if m.strip() not in ('world',)]
            return self._frame_check_rest(fr, st, c, fn, whole, extra)
        for m in (c.modifies or []):
            e = m.strip()
            if e == 'nothing': continue
            root = e.split('.')[0].split('[')[0]
            if root in entry_env['vars']:
                for key, idx, srt in self.ev_lval(cparse.parse_expr(e), entry_env):
                    locs.setdefault(key, []).append(idx)
            else:
                whole |= self.mod_entry_keys(e, fn, c)
        alloc0 = fr.entry['alloc'] if isinstance(fr.entry, dict) else fr.entry.alloc
        bykey = {}
        for key, idx in st.writes:
            if key in whole: continue
            if key.startswith('mem:') and 'mem:*' in whole: continue
            if key.startswith('cell:') or key.startswith('chan.'): continue
            bykey.setdefault(key, []).append(idx)
        for key, idxs in bykey.items():
            goals = []
            for idx in idxs:
                if idx is None:
                    goals.append(BoolVal(False)); continue
                first = idx[0] if idx else None
                alts = []
                if first is not None and z3.is_expr(first):
                    alts.append(first > alloc0)
                for a in locs.get(key, []):
                    if len(a) <= len(idx):
                        alts.append(And(*[x == y for x, y in zip(a, idx) if y is not None]) if a else BoolVal(True))
                goals.append(Or(*alts) if alts else BoolVal(False))
            self.oblige(st, None, 'frame', key, And(*goals), None, text='writes to %s stay within modifies' % key)

    # ------------------------------------------------------------------ solving
    def solve_all(self, timeout_ms=10000, seed=0, race=True, jobs=None):
        """the claimed kinds first, with the whole budget; machine-integer overflow obligations (thorough tier, reported only) afterwards
        with a budget of their own, so that they can never starve an obligation that is part of the claim"""
        allo = self.obls
        main = [o for o in allo if o.kind != 'overflow']; extra = [o for o in allo if o.kind == 'overflow']
        try:
            self.obls = main
            t = self._solve_all(timeout_ms, seed, race, jobs, self.opts.get('budget_s', 150))
            if extra:
                self.obls = extra
                t += self._solve_all(min(timeout_ms, 10000), seed, False, jobs, self.opts.get('overflow_budget_s', 120))
        finally:
            self.obls = allo
        return t

    def _solve_all(self, timeout_ms, seed, race, jobs, budget_s):
        """discharge all obligations; forked workers share the z3 terms by copy-on-write"""
        global _WORK
        t0 = time.time()
        self.deadline = t0 + budget_s
        jobs = jobs or int(os.environ.get('GOCV_JOBS', '16'))
        n = len(self.obls)
        if jobs <= 1 or n < 8:
            failed = set()
            for o in self.obls:
                if time.time() > self.deadline:
                    o.result = 'unknown'; o.backend = 'not attempted: per-function time budget exhausted'; continue
                if o.name in failed and o.expect == 'unsat':
                    o.result = 'skipped'; o.backend = 'skipped (an earlier path instance of this obligation already failed)'
                    continue
                self.solve(o, timeout_ms, seed, race)
                if o.expect == 'unsat' and o.result != 'unsat': failed.add(o.name)
            return time.time() - t0
        import multiprocessing as mp
        _WORK = (self, timeout_ms, seed, race)
        # group obligations by identical path condition
        groups = {}
        for i, o in enumerate(self.obls):
            groups.setdefault(tuple(f.get_id() for f in o.pc), []).append(i)
        work = []
        for g in groups.values():
            for k in range(0, len(g), 12): work.append(g[k:k + 12])
        work.sort(key=lambda g: -len(g))
        ctx = mp.get_context('fork')
        with ctx.Pool(min(jobs, len(work))) as pool:
            for res in pool.imap_unordered(_solve_group, work, chunksize=1):
                for i, r, tm, be, model in res:
                    o = self.obls[i]; o.result, o.time, o.backend, o.model = r, tm, be, model
        # second chance for undecided obligations: other seed, longer timeout (guards against solver instability)
        retry = [i for i, o in enumerate(self.obls) if o.expect == 'unsat' and o.result == 'unknown' and 'budget' not in (o.backend or '')]
        names_failed = {}
        for i in retry: names_failed.setdefault(self.obls[i].name, []).append(i)
        if retry and len(names_failed) <= 12 and time.time() < self.deadline:
            _WORK = (self, timeout_ms * 3, (seed or 0) + 17, race)
            pick = [idxs[0] for idxs in names_failed.values()]   # one instance per name is enough to know whether retrying helps
            with ctx.Pool(min(jobs, len(retry))) as pool:
                for i, r, tm, be, model in pool.imap_unordered(_solve_one, retry if len(retry) <= 48 else pick, chunksize=1):
                    o = self.obls[i]
                    if r == 'unsat' or r == 'sat':
                        o.result, o.backend, o.model = r, be + '+retry', model
                    o.time += tm
        return time.time() - t0

    def solve(self, o, timeout_ms, seed, race=True):
        t = time.time()
        if o.expect != 'unsat':
            res, be, model = self.query(o, [o.goal], min(timeout_ms, 2000), seed, False)
        else:
            # first the goal as a whole with a short timeout; if undecided, skolemise and split it into pieces
            res, be, model = self.query(o, [o.goal], min(timeout_ms, 1500), seed, False)
            if res == 'unknown':
                pieces = split_goal(o.goal)
                if len(pieces) > 1:
                    allres = []
                    for g in pieces:
                        r2, be2, m2 = self.query(o, [g], timeout_ms, seed, race)
                        allres.append(r2)
                        if r2 == 'sat': res, model = 'sat', m2; break
                        if r2 != 'unsat': break
                    if all(r == 'unsat' for r in allres) and len(allres) == len(pieces): res = 'unsat'
                    elif 'sat' in allres: res = 'sat'
                    else: res = 'unknown'
                    be = be + '+split(%d)' % len(pieces)
                else:
                    res, be, model = self.query(o, [o.goal], timeout_ms, seed, race)
        o.result = res; o.backend = be; o.model = model
        o.time = time.time() - t
        return res

    def query(self, o, goals, timeout_ms, seed, race):
        if len(goals) == 1 and z3.is_false(goals[0]) and o.expect == 'unsat':
            # literally false goal (e.g. a write outside `modifies`): refuted as soon as the path is feasible
            s0 = z3.Solver(); s0.set('timeout', 1500)
            for f in o.pc:
                if not self.has_quant(f): s0.add(f)
            if s0.check() == z3.sat: return 'sat', 'z3-5.1.0(api,qf)', None
        s = z3.Solver()
        s.set('timeout', timeout_ms)
        s.set('smt.auto_config', False)
        if seed: s.set('random_seed', seed % 1000)
        for f in o.pc:
            if o.kind in ('smoke', 'reachcall') and self.has_quant(f): continue
            s.add(f)
        if o.kind not in ('smoke', 'reachcall'):
            for f in self.global_axioms: s.add(f)
        s.add(Not(And(*goals)) if len(goals) > 1 else Not(goals[0]))
        r = s.check()
        be = 'z3-5.1.0(api)'
        res = str(r); model = None
        if r == z3.sat and o.expect == 'unsat':
            try: model = self.model_summary(s.model(), o)
            except Exception: model = None
        if r == z3.unknown and race:
            alt = race_solvers(s.to_smt2(), timeout_ms)
            if alt is not None: res, be = alt
        return res, be, model

    def model_summary(self, m, o):
        """plain-data summary of a counterexample model (values of the symbolic inputs)"""
        out = {}
        for d in m.decls():
            nm = d.name()
            if d.arity() == 0 and (nm.startswith('p.') or nm.startswith('fv.')):
                try: out[nm] = str(m[d])
                except Exception: pass
        return out


_WORK = None
_skc = [0]


def split_goal(g):
    """skolemise universal quantifiers and split conjunctions of a goal into separately provable pieces"""
    if z3.is_quantifier(g) and g.is_forall():
        vs = []
        for i in range(g.num_vars()):
            _skc[0] += 1
            vs.append(z3.Const('sk!%s!%d' % (g.var_name(i), _skc[0]), g.var_sort(i)))
        body = z3.substitute_vars(g.body(), *reversed(vs))
        return split_goal(body)
    if z3.is_and(g):
        out = []
        for c in g.children(): out += split_goal(c)
        return out
    if z3.is_implies(g):
        a, b = g.arg(0), g.arg(1)
        ps = split_goal(b)
        if len(ps) == 1 and ps[0].eq(b): return [g]
        return [z3.Implies(a, p) for p in ps]
    return [g]


def _solve_one(i):
    v, timeout_ms, seed, race = _WORK
    o = v.obls[i]
    v.solve(o, timeout_ms, seed, race)
    return i, o.result, o.time, o.backend, o.model


def _solve_group(idxs):
    """obligations sharing one path condition: one incremental solver, fresh-solver fallback when undecided"""
    v, timeout_ms, seed, race = _WORK
    out = []
    if time.time() > v.deadline:
        return [(i, 'unknown', 0.0, 'not attempted: per-function time budget exhausted', None) for i in idxs]
    obs = [v.obls[i] for i in idxs]
    inc = None
    if len(obs) > 2:
        inc = z3.Solver(); inc.set('timeout', 1000); inc.set('smt.auto_config', False)
        for f in obs[0].pc: inc.add(f)
        for f in v.global_axioms: inc.add(f)
    for i, o in zip(idxs, obs):
        done = False
        if inc is not None and o.expect == 'unsat' and o.kind not in ('smoke', 'reachcall'):
            t = time.time()
            inc.push(); inc.add(Not(o.goal))
            r = inc.check()
            inc.pop()
            if r == z3.unsat:
                o.result = 'unsat'; o.backend = 'z3-5.1.0(api,incremental)'; o.time = time.time() - t; o.model = None; done = True
        if not done:
            if time.time() > v.deadline:
                o.result, o.time, o.backend, o.model = 'unknown', 0.0, 'not attempted: per-function time budget exhausted', None
            else:
                v.solve(o, timeout_ms, seed, race)
        out.append((i, o.result, o.time, o.backend, o.model))
    return out


def race_solvers(smt, timeout_ms):
    """try the other installed solvers on an SMT-LIB dump; returns (result, backend) or None"""
    has_lambda = '(lambda' in smt
    fd, path = tempfile.mkstemp(suffix='.smt2', dir=os.environ.get('GOCV_TMP', '/var/tmp'))
    os.write(fd, smt.encode()); os.close(fd)
    out = None
    try:
        cmds = [(['z3', '-T:%d' % max(1, timeout_ms // 1000), path], 'z3-4.8.12')]
        if not has_lambda:
            cmds.append((['cvc5', '--incremental', '--tlimit=%d' % timeout_ms, path], 'cvc5-1.0'))
        for cmd, nm in cmds:
            try:
                p = subprocess.run(cmd, stdout=subprocess.PIPE, stderr=subprocess.PIPE, timeout=timeout_ms / 1000 + 5)
                first = p.stdout.decode().strip().split('\n')[0].strip() if p.stdout else ''
                if first in ('unsat', 'sat'):
                    out = (first, nm); break
            except Exception:
                pass
    finally:
        os.unlink(path)
    return out
