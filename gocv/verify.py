# gocv verifier: verifies one function against its contract and discharges the obligations.
import os, sys, time, subprocess, tempfile, hashlib, traceback
import z3
from z3 import IntVal, BoolVal, And, Or, Not, Implies
from ir import short
from vals import *
from engine import Engine
import cparse


class Verifier(Engine):
    def find_fn(self, name):
        for f in self.p.funcs.values():
            if self.shortfn(f.name) == name: return f
        return None

    def verify_function(self, name):
        """symbolically execute function `name` (short form) against its contract; fills self.obls"""
        fn = self.find_fn(name)
        c = self.c.funcs.get(name)
        if fn is None: raise Unsupported('function %s not found in /repo (contract-unbound)' % name)
        self.cur = name; self.top_name = fn.name
        st = State()
        args = []
        for i, p in enumerate(fn.params):
            v = self.fresh(st, p['type'], 'p.' + p['name'])
            args.append(v)
        bind = [self.fresh(st, p['type'], 'fv.' + p['name']) for p in fn.freevars]
        if fn.j.get('recv') and args and z3.is_expr(args[0]) and self.K(fn.params[0]['type']) == 'ptr':
            st.assume(args[0] != 0)
            self.assumptions.add('pointer receivers are non-nil')
        # free variables that are cells of the enclosing function: model as fresh cells
        bind2 = []
        for p, v in zip(fn.freevars, bind):
            if self.K(p['type']) == 'ptr' and self.K(self.p.elem(p['type'])) != 'struct':
                et = self.p.elem(p['type'])
                r = fint('fvcell.' + p['name']); st.assume(And(r > 0, r <= st.alloc))
                if self.K(et) == 'array':
                    raise Unsupported('free variable of array type')
                v = Loc('cell:' + self.skey(et), (r,), et)
            bind2.append(v)
        bind = bind2
        results = []

        def k(s2, vals, f2):
            self.npaths += 1
            self.at_return(f2, s2, vals, c, fn)

        def kp(s2, f2):
            self.npaths += 1
            self.at_panic(f2, s2, c, fn)

        fr = self.run_function(fn, args, st, k, kp, 0, bind=bind, contract=c)
        env = {'st': st, 'old': None, 'vars': {}, 'fr': fr}
        if c is not None:
            for txt, ast in c.requires:
                st.assume(self.ev_bool(ast, env))
            for txt, ast in c.assumes:
                st.assume(self.ev_bool(ast, env))
                self.assumptions.add('%s: assume %s' % (name, txt))
        entry = st.copy()
        fr.entry = entry
        fr.entry_env = {'st': entry, 'old': None, 'vars': {n: v for n, v in fr.names.items()}, 'fr': None}
        # reach.entry: the precondition is satisfiable
        o = Obl('%s/reach/entry' % name, 'reach', list(st.pc), BoolVal(False), [], fn.pos, 'precondition satisfiable')
        o.expect = 'sat'
        self.obls.append(o)
        self.start(fr, st)
        return fn

    def result_env(self, fr, st, vals, fn):
        env = self.mkenv(fr, st)
        rs = fn.results
        for i, (r, v) in enumerate(zip(rs, vals)):
            n = r['name'] or ('result' if len(rs) == 1 else 'result%d' % i)
            env['vars'][n] = (v, r['type'])
            if len(rs) == 1: env['vars']['result'] = (v, r['type'])
        # at return, names are evaluated in the final state: parameters keep their entry values
        for p in fn.params:
            env['vars'].setdefault(p['name'], fr.entry_env['vars'].get(p['name']))
        return env

    def at_return(self, fr, st, vals, c, fn):
        self.path_ends.append(('return', list(st.trace)))
        if c is None: return
        env = self.result_env(fr, st, vals, fn)
        for n, (txt, ast) in enumerate(c.ensures):
            parts = self.split_conj(ast)
            for j, a in enumerate(parts):
                g = self.ev_bool(a, env)
                nm = '%d' % (n + 1) if len(parts) == 1 else '%d.%d' % (n + 1, j + 1)
                self.oblige(st, None, 'post', nm, g, None, text=txt)
        self.frame_check(fr, st, c, fn)
        o = Obl('%s/smoke/return' % self.cur, 'smoke', list(st.pc), BoolVal(False), list(st.trace), '', 'some return is reachable')
        o.expect = 'sat'
        self.obls.append(o)

    def at_panic(self, fr, st, c, fn):
        self.path_ends.append(('panic', list(st.trace)))
        if c is None: return
        txt = c.flags.get('onpanic')
        if txt:
            env = self.mkenv(fr, st)
            for p in fn.params:
                env['vars'].setdefault(p['name'], fr.entry_env['vars'].get(p['name']))
            for n, t in enumerate(txt.split(';;')):
                if t.strip():
                    self.oblige(st, None, 'onpanic', '%d' % (n + 1), self.ev_bool(cparse.parse_expr(t), env), None, text=t)

    def split_conj(self, ast):
        if ast[0] == 'bin' and ast[1] == '&&':
            return self.split_conj(ast[2]) + self.split_conj(ast[3])
        if ast[0] == 'bin' and ast[1] == '==>' and ast[3][0] == 'bin' and ast[3][1] == '&&':
            return [('bin', '==>', ast[2], x) for x in self.split_conj(ast[3])]
        return [ast]

    def frame_check(self, fr, st, c, fn):
        """every heap write on this path is to a fresh object or allowed by `modifies`"""
        whole = set(); locs = {}
        entry_env = fr.entry_env
        for m in (c.modifies or []):
            e = m.strip()
            if e == 'nothing': continue
            root = e.split('.')[0].split('[')[0]
            if root in entry_env['vars']:
                for key, idx, srt in self.ev_lval(cparse.parse_expr(e), entry_env):
                    locs.setdefault(key, []).append(idx)
            else:
                whole |= self.mod_entry_keys(e, fn, c)
        alloc0 = fr.entry['alloc'] if isinstance(fr.entry, dict) else fr.entry.alloc
        bykey = {}
        for key, idx in st.writes:
            if key in whole: continue
            if key.startswith('cell:') or key.startswith('chan.'): continue
            bykey.setdefault(key, []).append(idx)
        for key, idxs in bykey.items():
            goals = []
            for idx in idxs:
                if idx is None:
                    goals.append(BoolVal(False)); continue
                first = idx[0] if idx else None
                alts = []
                if first is not None and z3.is_expr(first):
                    alts.append(first > alloc0)
                for a in locs.get(key, []):
                    if len(a) <= len(idx):
                        alts.append(And(*[x == y for x, y in zip(a, idx) if y is not None]) if a else BoolVal(True))
                goals.append(Or(*alts) if alts else BoolVal(False))
            self.oblige(st, None, 'frame', key, And(*goals), None, text='writes to %s stay within modifies' % key)

    # ------------------------------------------------------------------ solving
    def solve_all(self, timeout_ms=10000, seed=0, race=True):
        t0 = time.time()
        for o in self.obls:
            self.solve(o, timeout_ms, seed, race)
        return time.time() - t0

    def solve(self, o, timeout_ms, seed, race=True):
        t = time.time()
        s = z3.Solver()
        s.set('timeout', timeout_ms)
        if seed: s.set('random_seed', seed % 1000)
        for f in o.pc: s.add(f)
        s.add(Not(o.goal))
        r = s.check()
        o.backend = 'z3-5.1.0(api)'
        res = str(r)
        if r == z3.sat and o.expect == 'unsat':
            try:
                o.model = s.model()
            except Exception:
                o.model = None
        if r == z3.unknown and race:
            smt = s.to_smt2()
            alt = race_solvers(smt, timeout_ms)
            if alt is not None:
                res, o.backend = alt
        o.result = res
        o.time = time.time() - t
        return res


def race_solvers(smt, timeout_ms):
    """try the other installed solvers on an SMT-LIB dump; returns (result, backend) or None"""
    has_lambda = '(lambda' in smt
    fd, path = tempfile.mkstemp(suffix='.smt2', dir=os.environ.get('GOCV_TMP', '/var/tmp'))
    os.write(fd, smt.encode()); os.close(fd)
    out = None
    try:
        cmds = [(['z3', '-T:%d' % max(1, timeout_ms // 1000), path], 'z3-4.8.12')]
        if not has_lambda:
            cmds.append((['cvc5', '--incremental', '--tlimit=%d' % timeout_ms, path], 'cvc5-1.0'))
        for cmd, nm in cmds:
            try:
                p = subprocess.run(cmd, stdout=subprocess.PIPE, stderr=subprocess.PIPE, timeout=timeout_ms / 1000 + 5)
                first = p.stdout.decode().strip().split('\n')[0].strip() if p.stdout else ''
                if first in ('unsat', 'sat'):
                    out = (first, nm); break
            except Exception:
                pass
    finally:
        os.unlink(path)
    return out
