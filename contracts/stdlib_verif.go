// Assumed contracts of external (standard library / third party) functions.
// These are NOT verified: every one of them is listed in the evidence as trusted base.

package contracts

//@ extern fmt.Errorf
//@   ensures result != nil
//@
//@ extern errors.New
//@   ensures result != nil
//@
//@ extern dirtmake.Bytes
//@   params ln cp
//@   results buf
//@   requires 0 <= ln && ln <= cp
//@   ensures fresh(buf) && buf#arr != 0 && len(buf) == ln && cap(buf) == cp && buf#base == 0
