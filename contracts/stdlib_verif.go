// Assumed contracts of external (standard library / third party) functions.
// These are NOT verified: every one of them is listed in the evidence as trusted base.

package contracts

//@ extern fmt.Errorf
//@   ensures result != nil
//@
//@ extern errors.New
//@   ensures result != nil
//@
//@ extern dirtmake.Bytes
//@   params ln cp
//@   results buf
//@   requires 0 <= ln && ln <= cp
//@   ensures fresh(buf) && buf#arr != 0 && len(buf) == ln && cap(buf) == cp && buf#base == 0
//@
//@ extern bytes.IndexByte
//@   params b c
//@   ensures -1 <= result && result < len(b)
//@
//@ iface io.Reader.Read
//@   params p
//@   results n err
//@   note the io.Reader contract: n <= len(p); only p[:n] is written. Negative n is tolerated (the adapter handles it).
//@   ensures n <= len(p)
//@   modifies mem
//@
//@ iface io.Writer.Write
//@   params p
//@   results n err
//@   note the io.Writer contract: 0 <= n <= len(p); p is only read.
//@   ensures 0 <= n && n <= len(p)
//@
//@ extern syscall.Close
//@   params fd
//@   results err
//@   note close(2): the caller must own the open descriptor; afterwards the number is free (and may be reused by anyone)
//@   requires fdopen[fd]
//@   ensures !fdopen[fd] && closecnt[fd] == old(closecnt[fd]) + 1
//@   ensures forall x int :: x != fd ==> fdopen[x] == old(fdopen[x]) && closecnt[x] == old(closecnt[x])
//@   modifies fdopen, closecnt
