// Assumed contracts of external (standard library / third party) functions.
// These are NOT verified: every one of them is listed in the evidence as trusted base.

package contracts

//@ extern fmt.Errorf
//@   ensures result != nil && !typeis(result, *exception) && !typeis(result, syscall.Errno)
//@
//@ extern errors.New
//@   ensures result != nil && !typeis(result, *exception)
//@
//@ extern dirtmake.Bytes
//@   params ln cp
//@   results buf
//@   requires 0 <= ln && ln <= cp
//@   ensures fresh(buf) && buf#arr != 0 && len(buf) == ln && cap(buf) == cp && buf#base == 0
//@   note ghost maps are zero at a block that did not exist before (definitional: ghost state is only ever written at allocated blocks)
//@   ensures pool[buf#arr] == 0 && blknode[buf#arr] == 0 && cacheown[buf#arr] == nil && peekown[buf#arr] == nil
//@
//@ extern bytes.IndexByte
//@   params b c
//@   ensures -1 <= result && result < len(b)
//@
//@ iface io.Reader.Read
//@   params p
//@   results n err
//@   note the io.Reader contract: n <= len(p); only p[:n] is written. Negative n is tolerated (the adapter handles it).
//@   ensures n <= len(p)
//@   modifies mem
//@
//@ iface io.Writer.Write
//@   params p
//@   results n err
//@   note the io.Writer contract: 0 <= n <= len(p); p is only read.
//@   ensures 0 <= n && n <= len(p)
//@
//@ extern syscall.Close
//@   params fd
//@   results err
//@   note close(2): the caller must own the open descriptor; afterwards the number is free (and may be reused by anyone)
//@   requires fdopen[fd]
//@   ensures !fdopen[fd] && closecnt[fd] == old(closecnt[fd]) + 1
//@   ensures forall x int :: x != fd ==> fdopen[x] == old(fdopen[x]) && closecnt[x] == old(closecnt[x])
//@   modifies fdopen, closecnt
//@
//@ extern syscall.Socket
//@   params domain typ proto
//@   results fd err
//@   note socket(2): on success a descriptor number that was not open before, now owned by the caller
//@   ensures err == nil ==> fd >= 0 && !old(fdopen[fd]) && fdopen[fd] && closecnt[fd] == old(closecnt[fd])
//@   ensures err != nil ==> fd == -1 && fdopen[fd] == old(fdopen[fd])
//@   ensures forall x int :: x != fd ==> fdopen[x] == old(fdopen[x])
//@   modifies fdopen
//@
//@ extern syscall.Accept
//@   params lfd
//@   results nfd sa err
//@   note accept(2): on success a fresh descriptor owned by the caller
//@   ensures err == nil ==> nfd >= 0 && !old(fdopen[nfd]) && fdopen[nfd]
//@   ensures err != nil ==> nfd == -1 && fdopen[nfd] == old(fdopen[nfd])
//@   ensures forall x int :: x != nfd ==> fdopen[x] == old(fdopen[x])
//@   modifies fdopen
//@
//@ extern syscall.SetNonblock
//@   params fd nonblocking
//@   results err
//@   note fcntl(F_SETFL, O_NONBLOCK): recorded in the ghost map nonblock
//@   ensures err == nil ==> nonblock[fd] == nonblocking
//@   ensures err != nil ==> nonblock[fd] == old(nonblock[fd])
//@   ensures forall x int :: x != fd ==> nonblock[x] == old(nonblock[x])
//@   modifies nonblock
//@
//@ extern os.NewSyscallError
//@   params syscall err
//@   ensures (err != nil) == (result != nil)
//@
//@ extern (*os.File).Close
//@   params f
//@   results err
//@   note closes the descriptor the file owns; calling it when that number was already closed through another handle is a double close
//@   requires fdopen[f.gfd]
//@   ensures !fdopen[f.gfd] && closecnt[f.gfd] == old(closecnt[f.gfd]) + 1
//@   ensures forall x int :: x != f.gfd ==> fdopen[x] == old(fdopen[x]) && closecnt[x] == old(closecnt[x])
//@   modifies fdopen, closecnt
//@
//@ extern (*os.File).Fd
//@   params f
//@   ensures result == f.gfd
//@
//@ extern (*net.TCPListener).File
//@   params l
//@   results f err
//@   note dup(2) of the listener's descriptor into a fresh *os.File that owns the new number
//@   ensures err == nil ==> f != nil && fresh(f) && f.gfd >= 3 && f.gfd < 2147483647 && !old(fdopen)[f.gfd] && fdopen[f.gfd]
//@   ensures err != nil ==> f == nil
//@   ensures forall x int :: (err != nil || x != f.gfd) ==> fdopen[x] == old(fdopen[x])
//@   modifies fdopen
//@
//@ extern (*net.UnixListener).File
//@   params l
//@   results f err
//@   ensures err == nil ==> f != nil && fresh(f) && f.gfd >= 3 && f.gfd < 2147483647 && !old(fdopen)[f.gfd] && fdopen[f.gfd]
//@   ensures err != nil ==> f == nil
//@   ensures forall x int :: (err != nil || x != f.gfd) ==> fdopen[x] == old(fdopen[x])
//@   modifies fdopen
//@
//@ ghost field time.Timer.tstate int
//   tstate: 0 stopped-and-drained (or received), 1 armed, 2 fired with the value still in C (legacy timer-channel semantics)
//@ extern time.NewTimer
//@   params d
//@   ensures fresh(result) && result != nil && result.tstate == 1
//@   modifies nothing
//@ extern (*time.Timer).Reset
//@   params t d
//@   note legacy semantics (go.mod < 1.23): Reset must only be called on a stopped or expired timer with a drained channel
//@   requires t.tstate == 0
//@   ensures t.tstate == 1
//@   modifies t.tstate
//@ extern (*time.Timer).Stop
//@   params t
//@   note an armed timer may fire at any moment before Stop
//@   ensures old(t.tstate) == 0 ==> !result && t.tstate == 0
//@   ensures old(t.tstate) == 2 ==> !result && t.tstate == 2
//@   ensures old(t.tstate) == 1 ==> (result && t.tstate == 0) || (!result && t.tstate == 2)
//@   modifies t.tstate
//@
//@ extern syscall.Write
//@   params fd p
//@   results n err
//@   note write(2): counted per descriptor (ghost evwrites)
//@   ensures evwrites[fd] == old(evwrites[fd]) + 1
//@   ensures forall x int :: x != fd ==> evwrites[x] == old(evwrites[x])
//@   modifies evwrites
//@
//@ extern syscall.Read
//@   params fd p
//@   results n err
//@   note read(2): fills a prefix of p
//@   ensures n <= len(p)
//@   modifies mem
//@
//@ extern syscall.Syscall
//@   params trap a1 a2 a3
//@   results r1 r2 err
//@   note netpoll uses it only for eventfd2(2) (trap 290): a fresh descriptor on success, nothing otherwise
//@   ensures trap == 290 && err == 0 ==> r1 >= 3 && r1 < 2147483647 && !old(fdopen)[r1] && fdopen[r1]
//@   ensures forall x int :: (err != 0 || x != r1) ==> fdopen[x] == old(fdopen[x])
//@   modifies fdopen
//@
//@ extern (*sync.Map).Range
//@   params m f
//@   note calls f once per entry (possibly for none); the callbacks netpoll passes are verified separately; captured int counters may change
//@   modifies world, key:cell:int
//@ extern (*sync.Map).Store
//@   params m key value
//@   modifies nothing
//@ extern (*sync.Map).Delete
//@   params m key
//@   modifies nothing
//@
//@ extern context.WithTimeout
//@   params parent timeout
//@   results ctx cancel
//@   ensures ctx != nil && cancel != nil
//@ extern context.Background
//@   ensures result != nil
//@
//@ iface context.Context.Err
//@   note netpoll calls Err only after Done() has fired, when it is non-nil by the context package's contract
//@   ensures result != nil
//@ iface context.Context.Done
//@   ensures true
//@
//@ extern mcache.Malloc
//@   params size caps
//@   results buf
//@   note github.com/bytedance/gopkg/lang/mcache (capacity is variadic): a block from a size-classed sync.Pool; assumed: the block is not handed
//@     out twice before it is returned (ghost pool state 1 = handed out, 2 = returned), its capacity is the size class (>= the request, <= 8 MB here)
//@   requires 0 <= size && len(caps) == 1 && size <= caps[0] && caps[0] <= 8388608
//@   ensures fresh(buf) && buf#arr != 0 && len(buf) == size && cap(buf) >= caps[0] && cap(buf) > 0 && cap(buf) <= 8388608 && buf#base == 0
//@   ensures pool[buf#arr] == 1 && blknode[buf#arr] == 0 && cacheown[buf#arr] == nil && peekown[buf#arr] == nil
//@   ensures forall a int :: a != buf#arr ==> pool[a] == old(pool[a])
//@   modifies pool
//@ extern mcache.Free
//@   params buf
//@   note returning a block: it must be a live, whole block (base 0) of the pool that was not returned yet
//@   requires pool[buf#arr] == 1 && buf#base == 0 && cap(buf) > 0
//@   ensures pool[buf#arr] == 2
//@   ensures forall a int :: a != buf#arr ==> pool[a] == old(pool[a])
//@   modifies pool
//@
//@ extern (*syscall.Iovec).SetLen
//@   params iov length
//@   note syscall: iov.Len = uint64(length)
//@   requires iov != nil
//@   ensures iov.Len == length && (forall x *syscall.Iovec :: x != iov ==> x.Len == old(x.Len))
//@   modifies syscall.Iovec.Len
