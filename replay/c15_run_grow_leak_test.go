package netpoll

// gocv replay driver (C15/C18): manager.Run growing the poller set when descriptors run out part-way.
// FAILS exactly when the real code leaves the pollers it had already opened in this call open.

import (
	"os"
	"strings"
	"syscall"
	"testing"
	"time"
)

func countPollFds() (n int) {
	ents, _ := os.ReadDir("/proc/self/fd")
	for _, e := range ents {
		l, err := os.Readlink("/proc/self/fd/" + e.Name())
		if err == nil && (strings.Contains(l, "eventpoll") || strings.Contains(l, "eventfd")) {
			n++
		}
	}
	return n
}

func highestFd() (hi int) {
	ents, _ := os.ReadDir("/proc/self/fd")
	for _, e := range ents {
		var v int
		for _, ch := range e.Name() {
			v = v*10 + int(ch-'0')
		}
		if v > hi {
			hi = v
		}
	}
	return hi
}

func TestGocvReplayRunGrowLeak(t *testing.T) {
	var old syscall.Rlimit
	if err := syscall.Getrlimit(syscall.RLIMIT_NOFILE, &old); err != nil {
		t.Skip(err)
	}
	m := &manager{}
	m.SetLoadBalance(RoundRobin)
	m.numLoops = 4
	before := countPollFds()
	low := old
	low.Cur = uint64(highestFd() + 1 + 3) // room for one poller (2 descriptors) and the epoll descriptor of the second
	if err := syscall.Setrlimit(syscall.RLIMIT_NOFILE, &low); err != nil {
		t.Skip(err)
	}
	err := m.Run()
	syscall.Setrlimit(syscall.RLIMIT_NOFILE, &old)
	if err == nil {
		m.Close()
		t.Skip("descriptor limit did not bite")
	}
	after := countPollFds()
	for i := 0; i < 100 && after > before; i++ { // the pollers close their descriptors on their own goroutines
		time.Sleep(10 * time.Millisecond)
		after = countPollFds()
	}
	if after > before {
		t.Fatalf("manager.Run failed (%v) and left %d poller descriptors open that it had opened in this call", err, after-before)
	}
}
