package netpoll

// gocv replay driver (C05): a request handler panics after the peer has closed the connection.
// The close callbacks must run exactly once; a later Close() must not run them again.
// Injected with `go test -overlay`; FAILS exactly when the real code misbehaves.

import (
	"context"
	"sync/atomic"
	"syscall"
	"testing"
	"time"
)

func TestGocvReplayPanicCallbacksOnce(t *testing.T) {
	rfd, wfd := GetSysFdPairs()
	var runs int32
	entered := make(chan struct{}, 1)
	opts := &options{}
	opts.onRequest = func(ctx context.Context, c Connection) error {
		select {
		case entered <- struct{}{}:
		default:
		}
		for c.IsActive() { // stay in the handler until the poller has seen the peer close
			time.Sleep(time.Millisecond)
		}
		panic("gocv: handler panics after peer close")
	}
	conn := &connection{}
	if err := conn.init(&netFD{fd: rfd}, opts); err != nil {
		t.Skip("init failed:", err)
	}
	conn.AddCloseCallback(func(Connection) error { atomic.AddInt32(&runs, 1); return nil })
	syscall.Write(wfd, []byte("x"))
	select {
	case <-entered:
	case <-time.After(2 * time.Second):
		t.Skip("handler did not start")
	}
	syscall.Close(wfd)
	deadline := time.Now().Add(3 * time.Second)
	for atomic.LoadInt32(&runs) == 0 && time.Now().Before(deadline) {
		time.Sleep(5 * time.Millisecond)
	}
	time.Sleep(50 * time.Millisecond)
	first := atomic.LoadInt32(&runs)
	func() {
		defer func() { recover() }()
		conn.Close()
	}()
	time.Sleep(50 * time.Millisecond)
	if got := atomic.LoadInt32(&runs); first != 1 || got != 1 {
		t.Fatalf("close callbacks ran %d time(s) after the panic and %d time(s) after a later Close(); want exactly once", first, got)
	}
}
