package netpoll

// gocv replay driver (C15): listener.Close must close the duplicated descriptor exactly once.
// Run under strace by gocv/replay.py (driver kind "strace"): the test prints the descriptor number;
// the driver counts close(2) calls on that number after the marker.

import (
	"fmt"
	"net"
	"os"
	"testing"
)

func TestGocvReplayListenerClose(t *testing.T) {
	l, err := net.Listen("tcp", "127.0.0.1:0")
	if err != nil {
		t.Skip(err)
	}
	nl, err := ConvertListener(l)
	if err != nil {
		t.Skip(err)
	}
	ln := nl.(*listener)
	fmt.Fprintf(os.Stderr, "GOCV-FD %d\n", ln.fd)
	nl.Close()
	fmt.Fprintf(os.Stderr, "GOCV-END\n")
}
