package netpoll

// gocv replay driver (C10/C12): Release() on a connection that was closed, after its poller slot has been handed to a new connection.
// FAILS exactly when the real code misbehaves: the stale call panics and/or leaves the bystander's slot token taken (state 2), so the
// poller ignores the bystander from then on.

import (
	"sync/atomic"
	"syscall"
	"testing"
	"time"
)

func TestGocvReplayStaleRelease(t *testing.T) {
	r1, w1 := GetSysFdPairs()
	defer syscall.Close(w1)
	ca, err := NewFDConnection(r1)
	if err != nil {
		t.Skip(err)
	}
	a := ca.(*connection)
	slot := a.operator
	a.Close()
	// let the close callbacks free the slot and the poller splice it back between two batches
	var b *connection
	deadline := time.Now().Add(5 * time.Second)
	var keep []Connection
	for time.Now().Before(deadline) {
		time.Sleep(20 * time.Millisecond)
		r2, w2 := GetSysFdPairs()
		defer syscall.Close(w2)
		cb, err := NewFDConnection(r2)
		if err != nil {
			t.Skip(err)
		}
		keep = append(keep, cb)
		syscall.Write(w2, []byte{1}) // wake the poller: the freed slot is spliced back only after a batch
		if cb.(*connection).operator == slot {
			b = cb.(*connection)
			break
		}
	}
	if b == nil {
		t.Skip("slot was not reused")
	}
	panicked := false
	func() {
		defer func() {
			if r := recover(); r != nil {
				panicked = true
			}
		}()
		a.Release() // stale call on the closed connection A
	}()
	st := atomic.LoadInt32(&b.operator.state)
	if panicked || st != 1 {
		t.Fatalf("stale Release on closed connection: panicked=%v, bystander slot state=%d (want 1)", panicked, st)
	}
	for _, c := range keep {
		c.Close()
	}
}
