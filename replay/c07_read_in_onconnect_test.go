package netpoll

// gocv replay driver (C07): a reader blocked inside OnConnect when the first data arrives.
// FAILS exactly when the real code does not wake it (the read only ends by its timeout).

import (
	"context"
	"net"
	"testing"
	"time"
)

func TestGocvReplayReadInsideOnConnect(t *testing.T) {
	ln, err := net.Listen("tcp", "127.0.0.1:0")
	if err != nil {
		t.Skip(err)
	}
	got := make(chan error, 1)
	took := make(chan time.Duration, 1)
	loop, err := NewEventLoop(
		func(ctx context.Context, conn Connection) error { conn.Reader().Release(); return nil },
		WithOnConnect(func(ctx context.Context, conn Connection) context.Context {
			conn.SetReadTimeout(3 * time.Second)
			t0 := time.Now()
			_, e := conn.Reader().Next(4)
			took <- time.Since(t0)
			got <- e
			return ctx
		}),
	)
	if err != nil {
		t.Skip(err)
	}
	go loop.Serve(ln)
	defer loop.Shutdown(context.Background())
	c, err := net.Dial("tcp", ln.Addr().String())
	if err != nil {
		t.Skip(err)
	}
	defer c.Close()
	time.Sleep(200 * time.Millisecond) // OnConnect is now blocked in Next(4) on an empty buffer
	c.Write([]byte("ping"))
	select {
	case e := <-got:
		d := <-took
		t.Logf("err=%v after %v", e, d)
		if e != nil || d > 2*time.Second {
			t.Fatalf("reader blocked in OnConnect was not woken by the arriving data: err=%v after %v", e, d)
		}
	case <-time.After(5 * time.Second):
		t.Fatalf("reader blocked in OnConnect never returned")
	}
}
