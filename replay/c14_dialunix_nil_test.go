package netpoll

// gocv replay driver (C14): DialUnix without a remote address must answer with an error, not a panic.
// FAILS exactly when the real code panics.

import "testing"

func TestGocvReplayDialUnixNilRaddr(t *testing.T) {
	defer func() {
		if r := recover(); r != nil {
			t.Fatalf("DialUnix(\"unix\", nil, nil) panicked instead of returning an error: %v", r)
		}
	}()
	conn, err := DialUnix("unix", nil, nil)
	if err == nil || conn != nil {
		t.Fatalf("DialUnix without a remote address: conn=%v err=%v, want nil connection and an error", conn, err)
	}
}
