//go:build !race
// +build !race

package netpoll

import "testing"

// gocv replay driver for (*UnsafeLinkBuffer).Peek/ghost.assert/before_call_append#2 (C02, known finding): a cross-node Peek whose result
// is still held (no Release yet), a consuming read, and another cross-node Peek. The consuming read resets the peek cache to length 0
// and the second Peek rewrites the cache block from its start, i.e. the bytes behind the first result. FAILS when they change.
func TestGocvReplayPeekResultSurvivesConsume(t *testing.T) {
	b := NewLinkBuffer()
	for k := 0; k < 4; k++ {
		m, _ := b.Malloc(4000)
		for i := range m {
			m[i] = byte('A' + k)
		}
		b.Flush()
	}
	p1, err := b.Peek(6000)
	if err != nil || len(p1) != 6000 {
		t.Fatalf("peek 1: %v %d", err, len(p1))
	}
	want := append([]byte(nil), p1...)
	if _, err = b.Next(3000); err != nil { // a later read; the reader of p1 has not called Release
		t.Fatalf("next: %v", err)
	}
	if _, err = b.Peek(6000); err != nil {
		t.Fatalf("peek 2: %v", err)
	}
	for i := range want {
		if p1[i] != want[i] {
			t.Fatalf("first Peek result changed before Release: p1[%d] = %q, want %q", i, p1[i], want[i])
		}
	}
}
