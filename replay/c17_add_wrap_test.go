package mux

// gocv replay driver (C17): ShardQueue.Add after the shard counter has wrapped around.
// Injected with `go test -overlay`; FAILS exactly when the real code misbehaves.

import (
	"math"
	"testing"

	"github.com/cloudwego/netpoll"
)

type gocvNopConn struct{ netpoll.Connection }

func (gocvNopConn) IsActive() bool { return false }

func TestGocvReplayAddWrap(t *testing.T) {
	q := NewShardQueue(4, gocvNopConn{})
	q.idx = math.MaxInt32 // the counter value the verifier's model needs: the next AddInt32 wraps to MinInt32
	defer func() {
		if r := recover(); r != nil {
			t.Fatalf("ShardQueue.Add panicked after counter wrap-around: %v", r)
		}
	}()
	for i := 0; i < 8; i++ {
		q.Add(func() (netpoll.Writer, bool) { return nil, true })
	}
}
