package netpoll

// gocv replay driver (C18, known finding): Pick on a manager whose Run fails because no descriptor can be opened.
// FAILS (reports the panic) exactly when the real code misbehaves.

import (
	"syscall"
	"testing"
)

func TestGocvReplayPickOpenPollFails(t *testing.T) {
	var old syscall.Rlimit
	if err := syscall.Getrlimit(syscall.RLIMIT_NOFILE, &old); err != nil {
		t.Skip(err)
	}
	m := newManager(1)
	low := old
	low.Cur = 0
	if err := syscall.Setrlimit(syscall.RLIMIT_NOFILE, &low); err != nil {
		t.Skip(err)
	}
	defer syscall.Setrlimit(syscall.RLIMIT_NOFILE, &old)
	defer func() {
		syscall.Setrlimit(syscall.RLIMIT_NOFILE, &old)
		if r := recover(); r != nil {
			t.Fatalf("manager.Pick panicked after openPoll failed (descriptor exhaustion): %v", r)
		}
	}()
	p := m.Pick()
	if p == nil {
		t.Fatalf("manager.Pick returned nil")
	}
}
