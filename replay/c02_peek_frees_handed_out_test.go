//go:build !race
// +build !race

package netpoll

import "testing"

// gocv replay driver for (*UnsafeLinkBuffer).Peek/forbid/free (C02): a cross-node Peek whose result is still held (no Release yet),
// followed by a larger cross-node Peek. The second Peek must not hand the first result's memory back to the pool: the test fails
// when the pool re-issues the block the first result points into (or when the first result's bytes change) before Release.
func TestGocvReplayPeekKeepsHandedOutBlock(t *testing.T) {
	b := NewLinkBuffer()
	for k := 0; k < 4; k++ {
		m, _ := b.Malloc(4000)
		for i := range m {
			m[i] = byte('A' + k)
		}
		b.Flush()
	}
	p1, err := b.Peek(6000) // spans two nodes: served from the peek cache (an 8 KiB pool block)
	if err != nil || len(p1) != 6000 {
		t.Fatalf("peek 1: %v %d", err, len(p1))
	}
	want := append([]byte(nil), p1...)
	if _, err = b.Peek(10000); err != nil { // does not fit in the cache block: a bigger one is taken
		t.Fatalf("peek 2: %v", err)
	}
	// anybody may allocate now; the reader of p1 has not called Release
	var got [][]byte
	for k := 0; k < 4; k++ {
		x := malloc(8192, 8192)
		for i := range x {
			x[i] = '#'
		}
		got = append(got, x)
		if &x[:1][0] == &p1[:1][0] {
			t.Errorf("the block behind the first Peek result was handed out again by the pool before Release")
		}
	}
	for i := range want {
		if p1[i] != want[i] {
			t.Fatalf("first Peek result changed before Release: p1[%d] = %q, want %q", i, p1[i], want[i])
		}
	}
	_ = got
}
