package netpoll

// gocv replay driver (C12): a Reader call that needs more bytes than are buffered, on a locally closed connection whose read deadline has passed.
// FAILS exactly when the real code does not answer ErrConnClosed.

import (
	"errors"
	"syscall"
	"testing"
	"time"
)

func TestGocvReplayClosedExpiredDeadline(t *testing.T) {
	rfd, wfd := GetSysFdPairs()
	defer syscall.Close(wfd)
	conn, err := NewFDConnection(rfd)
	if err != nil {
		t.Skip(err)
	}
	conn.SetReadDeadline(time.Now().Add(-time.Second))
	conn.Close()
	_, err = conn.Reader().Next(1)
	if !errors.Is(err, ErrConnClosed) {
		t.Fatalf("Next(1) on a closed connection: want ErrConnClosed, got %v", err)
	}
}
