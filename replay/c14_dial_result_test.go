package netpoll

// gocv replay drivers (C14): what a failed dial returns.
// Each test FAILS exactly when the real code misbehaves.

import (
	"fmt"
	"net"
	"syscall"
	"testing"
	"time"
)

// a refused dial must return a nil Connection together with the error (not a non-nil interface holding a nil pointer)
func TestGocvReplayDialTypedNil(t *testing.T) {
	conn, err := DialConnection("tcp", "127.0.0.1:1", time.Second)
	if err == nil {
		conn.Close()
		t.Skip("port 1 accepted a connection")
	}
	if conn != nil {
		t.Fatalf("failed dial returned both an error (%v) and a non-nil Connection (%T)", err, conn)
	}
}

// a dial that runs into its timeout must report Timeout()
func TestGocvReplayDialTimeoutReportsTimeout(t *testing.T) {
	fd, err := syscall.Socket(syscall.AF_INET, syscall.SOCK_STREAM, 0)
	if err != nil {
		t.Skip(err)
	}
	defer syscall.Close(fd)
	if err = syscall.Bind(fd, &syscall.SockaddrInet4{Addr: [4]byte{127, 0, 0, 1}}); err != nil {
		t.Skip(err)
	}
	if err = syscall.Listen(fd, 0); err != nil {
		t.Skip(err)
	}
	sa, _ := syscall.Getsockname(fd)
	addr := fmt.Sprintf("127.0.0.1:%d", sa.(*syscall.SockaddrInet4).Port)
	// nobody accepts: fill the accept queue so that further SYNs are dropped
	var keep []net.Conn
	for i := 0; i < 8; i++ {
		c, e := net.DialTimeout("tcp", addr, 100*time.Millisecond)
		if e != nil {
			break
		}
		keep = append(keep, c)
	}
	defer func() {
		for _, c := range keep {
			c.Close()
		}
	}()
	conn, err := DialConnection("tcp", addr, 300*time.Millisecond)
	if err == nil {
		conn.Close()
		t.Skip("accept queue did not fill up")
	}
	ne, ok := err.(net.Error)
	if !ok || !ne.Timeout() {
		t.Fatalf("dial ran into its timeout but the error does not report Timeout(): %T %v", err, err)
	}
}
