package netpoll

// gocv replay driver (C07/C08/C12): a read timeout on a connection made by NewFDConnection (no remote address).
// FAILS exactly when the real code misbehaves (panic instead of ErrReadTimeout).

import (
	"errors"
	"syscall"
	"testing"
	"time"
)

func TestGocvReplayTimeoutNilAddr(t *testing.T) {
	rfd, wfd := GetSysFdPairs()
	defer syscall.Close(wfd)
	conn, err := NewFDConnection(rfd)
	if err != nil {
		t.Skip(err)
	}
	defer func() {
		if r := recover(); r != nil {
			t.Fatalf("read timeout on a NewFDConnection connection panicked: %v", r)
		}
	}()
	conn.SetReadTimeout(20 * time.Millisecond)
	_, err = conn.Reader().Next(1)
	if !errors.Is(err, ErrReadTimeout) {
		t.Fatalf("want ErrReadTimeout, got %v", err)
	}
	conn.Close()
}
