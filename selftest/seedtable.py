#!/usr/bin/env python3
"""run every stored seeded change against the check of its property (scratch copy under /var/tmp, removed afterwards)
and print the table used in DESIGN.md section 0.6; also writes selftest/seed_results.json"""
import json, os, subprocess, shutil, tempfile, sys, re
ROOT = os.path.dirname(os.path.dirname(os.path.abspath(__file__)))
only = set(sys.argv[1:])
RES = os.path.join(ROOT, 'selftest', 'seed_results.json')
res = json.load(open(RES)) if (only and os.path.exists(RES)) else {}
for name in sorted(os.listdir(os.path.join(ROOT, 'seeded'))):
    if only and name not in only: continue
    d = os.path.join(ROOT, 'seeded', name)
    meta = json.load(open(os.path.join(d, 'meta.json')))
    pid = meta['property']
    props = [pid] + [p for p in meta.get('also_check', [])]
    tmp = tempfile.mkdtemp(prefix='gocv-seed-', dir='/var/tmp')
    try:
        subprocess.check_call(['rsync', '-a', '--exclude', '.git', '/repo/', tmp + '/'])
        r = subprocess.run(['patch', '-p1', '-s', '-i', os.path.join(d, 'patch.diff')], cwd=tmp, stdout=subprocess.PIPE, stderr=subprocess.STDOUT)
        if r.returncode:
            res[name] = {'property': pid, 'verdict': 'PATCH-DOES-NOT-APPLY', 'obligations': [r.stdout.decode()[:200]]}
            print('%-40s %s PATCH-DOES-NOT-APPLY' % (name, pid)); continue
        hit = []
        for p in props:
            q = subprocess.run(['python3-vt', os.path.join(ROOT, 'gocv', 'check.py'), p, '--repo', tmp], cwd=ROOT, stdout=subprocess.PIPE, stderr=subprocess.STDOUT)
            out = q.stdout.decode()
            obs = [l.strip() for l in out.split('\n') if l.startswith('  obligation')]
            if q.returncode == 1: hit += ['%s: %s' % (p, re.sub(r'^obligation ', '', o).split(': obligation that')[0].split(': the function can')[0]) for o in obs]
        res[name] = {'property': pid, 'verdict': 'CAUGHT' if hit else 'MISSED', 'obligations': hit[:4]}
        print('%-40s %s %-7s %s' % (name, pid, res[name]['verdict'], '; '.join(hit[:3])[:200]))
        sys.stdout.flush()
    finally:
        shutil.rmtree(tmp, ignore_errors=True)
json.dump(res, open(RES, 'w'), indent=1)
k = sum(1 for v in res.values() if v['verdict'] == 'CAUGHT')
print('seeded changes caught: %d/%d' % (k, len(res)))
