#!/bin/bash
# confirm a seeded change: confirm_seed.sh <patch.diff> <demo_test.go> <pkgdir (. or mux)> <test name regex> [full]
# applies the patch in a scratch worktree of /repo (removed afterwards), checks: builds, demo FAILS with it,
# demo PASSES without it, and (with "full") the whole existing suite still passes with it.
set -u
# the existing tests bind fixed ports: run every test command in a private network namespace so that concurrent runs cannot collide
NS() { if unshare -n true 2>/dev/null; then unshare -n sh -c "ip link set lo up && $*"; else sh -c "$*"; fi; }
export GOFLAGS=-mod=mod GOPROXY=off GOSUMDB=off GOTOOLCHAIN=local
PATCH=$1; DEMO=$2; PKG=$3; RUN=$4; FULL=${5:-}
W=$(mktemp -d /tmp/confirm-XXXXXX); rmdir $W
git -C /repo worktree add -q --detach $W HEAD || exit 2
trap 'git -C /repo worktree remove --force $W >/dev/null 2>&1' EXIT
cd $W
cp $DEMO $W/$PKG/zz_seed_demo_test.go
echo "== without the change"; NS "go test -vet=off -count=1 -timeout 300s -run '$RUN' ./$PKG" > $W/.out0 2>&1; R0=$?; tail -3 $W/.out0
git apply $PATCH || { echo "PATCH DOES NOT APPLY"; exit 2; }
echo "== build with the change"; go build ./... ; RB=$?
echo "== demo with the change"; NS "go test -vet=off -count=1 -timeout 300s -run '$RUN' ./$PKG" > $W/.out1 2>&1; R1=$?; tail -4 $W/.out1
RF=skipped
if [ -n "$FULL" ]; then rm -f $W/$PKG/zz_seed_demo_test.go; echo "== existing suite with the change"; NS "go test -vet=off -count=1 -timeout 25m ./..." > $W/.outf 2>&1; RF=$?; tail -5 $W/.outf; fi
echo "RESULT without=$R0 build=$RB with=$R1 suite=$RF"
