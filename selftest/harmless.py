#!/usr/bin/env python3
# must-pass corpus: behaviour-preserving edits of /repo (scratch copy under /var/tmp, removed afterwards); no check may print VIOLATION or exit non-zero
import sys, os, json, subprocess, shutil, tempfile
HERE = os.path.dirname(os.path.abspath(__file__)); ROOT = os.path.dirname(HERE)
GOENV = dict(os.environ, GOFLAGS='-mod=mod', GOPROXY='off', GOSUMDB='off', GOTOOLCHAIN='local')
corpus = json.load(open(os.path.join(HERE, 'harmless.json')))
want = set(sys.argv[1:]); bad = 0
for m in corpus:
    if want and m['id'] not in want: continue
    d = tempfile.mkdtemp(prefix='gocv-harmless-', dir='/var/tmp')
    try:
        subprocess.check_call(['rsync', '-a', '--exclude', '.git', '/repo/', d + '/'])
        for ed in m['edits']:
            p = os.path.join(d, ed['file']); s = open(p).read()
            assert ed['old'] in s, (m['id'], ed['file'])
            open(p, 'w').write(s.replace(ed['old'], ed['new'], 1))
        assert subprocess.run(['go', 'build', './...'], cwd=d, env=GOENV).returncode == 0, m['id']
        for pid in m['properties']:
            p = subprocess.run(['python3-vt', os.path.join(ROOT, 'gocv', 'check.py'), pid, '--repo', d], stdout=subprocess.PIPE, stderr=subprocess.STDOUT, cwd=ROOT)
            out = p.stdout.decode()
            alarm = p.returncode != 0 or 'VIOLATION' in out
            und = [l for l in out.split('\n') if l.startswith('UNDECIDED')]
            print('%-4s %-4s %-12s %s %s' % (m['id'], pid, 'FALSE-ALARM' if alarm else ('undecided' if und else 'quiet'), m['what'][:80], (und[0][:120] if und else '')))
            if alarm: bad += 1; print(out[-600:])
            sys.stdout.flush()
    finally:
        shutil.rmtree(d, ignore_errors=True)
print('harmless edits: %d false alarms' % bad)
sys.exit(1 if bad else 0)
