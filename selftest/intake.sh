#!/bin/bash
# intake of one delivered change: intake.sh <dir with patch.diff demo_test.go meta.json>  -> writes <dir>/confirm.log and <dir>/check.log
D=$1
P=$(jq -r .property $D/meta.json); PKG=$(jq -r .pkgdir $D/meta.json); T=$(jq -r .test $D/meta.json)
/verif/selftest/confirm_seed.sh $D/patch.diff $D/demo_test.go $PKG "$T" full > $D/confirm.log 2>&1
tail -1 $D/confirm.log
/verif/selftest/seedcheck.sh $D/patch.diff $P > $D/check.log 2>&1
cat $D/check.log
