#!/usr/bin/env python3
"""(re)insert the build report (DESIGN_build_report.md, with the seed table from selftest/seed_results.json) as section 0 of DESIGN.md"""
import json, os, re
ROOT = os.path.dirname(os.path.dirname(os.path.abspath(__file__)))
rep = open(os.path.join(ROOT, 'DESIGN_build_report.md')).read()
res = json.load(open(os.path.join(ROOT, 'selftest', 'seed_results.json')))
rows = ['| seeded change (`/verif/seeded/<name>`) | property | what it needs to manifest | verdict of the check | obligation(s) that fail |', '|---|---|---|---|---|']
for name in sorted(res):
    meta = json.load(open(os.path.join(ROOT, 'seeded', name, 'meta.json')))
    r = res[name]
    obs = '; '.join('`%s`' % o.split(': ', 1)[-1].split(': new obligation')[0] for o in r['obligations'][:2]) or '—'
    rows.append('| %s | %s | %s | %s | %s |' % (name, r['property'], meta['needs'].replace('|', '/'), r['verdict'], obs))
k = sum(1 for v in res.values() if v['verdict'] == 'CAUGHT')
table = '\n'.join(rows) + '\n\n%d of %d stored changes are caught by the check of the property they were seeded against.' % (k, len(res))
rep = rep.replace('SEEDTABLE', table)
stored = sorted(os.listdir(os.path.join(ROOT, 'seeded')))
norec = [n for n in stored if n not in res]
missed = [n for n in res if res[n]['verdict'] != 'CAUGHT']
summ = '%d have a recorded verdict from a run of their property check, %d of them CAUGHT' % (len(res), k)
if missed: summ += ' (not caught: %s)' % ', '.join(missed)
if norec: summ += '; %d stored changes have no recorded verdict yet (their property checks are the slowest ones and were not re-run against them before the session ended: %s)' % (len(norec), ', '.join(norec))
rep = rep.replace('SEEDSUMMARY', summ + '.')
import sys
sys.path.insert(0, os.path.join(ROOT, 'gocv'))
from claims import CLAIMS, NOT_APPLICABLE
prow = ['| property | functions verified | obligations claimed = discharged | not decided (clauses of the statement the contracts do not carry) |', '|---|---|---|---|']
for pid in sorted(CLAIMS):
    try:
        ev = json.load(open(os.path.join(ROOT, 'evidence', pid + '.json')))['coverage']
        nf = len([f for f in ev['functions_under_contract'] if f['function'] != '@owned']); no = '%d = %d' % (ev['obligations'], ev['discharged'])
    except Exception:
        nf, no = '?', '?'
    prow.append('| %s | %s | %s | %s |' % (pid, nf, no, '; '.join(CLAIMS[pid]['nd'])))
for pid in sorted(NOT_APPLICABLE):
    prow.append('| %s | - | not applicable | %s |' % (pid, NOT_APPLICABLE[pid]))
rep = rep.replace('PROPTABLE', '\n'.join(prow))
d = open(os.path.join(ROOT, 'DESIGN.md')).read()
d = re.sub(r'\n## 0\. Build report.*?(?=\n## 1\. What is built)', '\n', d, flags=re.S)
status = ("Status: built. Section 0 is the build report (what exists, what it found, what it cannot decide); sections 1-12 and the\n"
          "appendices are the design written before any code and are kept as rationale - where they differ from section 0, section 0 is right.\n")
d = re.sub(r'Status: .*?\n\n', status + '\n', d, count=1, flags=re.S)
d = d.replace('\n## 1. What is built', '\n' + rep.rstrip() + '\n\n\n## 1. What is built', 1)
open(os.path.join(ROOT, 'DESIGN.md'), 'w').write(d)
print('DESIGN.md: section 0 inserted (%d lines), %d/%d seeds caught' % (rep.count('\n'), k, len(res)))
