#!/bin/bash
# run a property check against a seeded change on a scratch copy of /repo: seedcheck.sh <patch.diff> <property>...
PATCH=$1; shift
D=$(mktemp -d /var/tmp/gocv-seed-XXXXXX)
rsync -a --exclude .git /repo/ $D/
(cd $D && patch -p1 -s < $PATCH) || { echo "PATCH FAILED"; rm -rf $D; exit 2; }
for P in "$@"; do
  (cd /verif && timeout 1800 python3-vt gocv/check.py $P --repo $D 2>&1 | grep "VIOLATION\|  obligation\|quick:\|KNOWN" | grep -v "KNOWN-FINDING" | head -5 | cut -c1-230)
done
rm -rf $D
