#!/usr/bin/env python3
# must-fail corpus: property-breaking edits of /repo (applied to a scratch copy under /var/tmp, removed afterwards);
# each must still compile and must make the named check report a VIOLATION.
#   run.py [ids...]      (no ids = all)
import sys, os, json, subprocess, shutil, tempfile, re, time
HERE = os.path.dirname(os.path.abspath(__file__))
ROOT = os.path.dirname(HERE)
GOENV = dict(os.environ, GOFLAGS='-mod=mod', GOPROXY='off', GOSUMDB='off', GOTOOLCHAIN='local')
corpus = json.load(open(os.path.join(HERE, 'mutants.json')))
want = set(sys.argv[1:])
res = []
for m in corpus:
    if want and m['id'] not in want: continue
    d = tempfile.mkdtemp(prefix='gocv-self-', dir='/var/tmp')
    try:
        subprocess.check_call(['rsync', '-a', '--exclude', '.git', '/repo/', d + '/'])
        ok = True
        for ed in m['edits']:
            p = os.path.join(d, ed['file']); s = open(p).read()
            if ed['old'] not in s:
                print('%-6s EDIT-DOES-NOT-APPLY %s' % (m['id'], ed['old'][:60])); ok = False; break
            s = s.replace(ed['old'], ed['new'], 1); open(p, 'w').write(s)
        if not ok:
            res.append((m['id'], 'stale')); continue
        r = subprocess.run(['go', 'build', './...'], cwd=d, env=GOENV, stderr=subprocess.PIPE)
        if r.returncode:
            print('%-6s DOES-NOT-COMPILE %s' % (m['id'], r.stderr.decode()[:200])); res.append((m['id'], 'nocompile')); continue
        t = time.time()
        p = subprocess.run(['python3-vt', os.path.join(ROOT, 'gocv', 'check.py'), m['property'], '--repo', d], stdout=subprocess.PIPE, stderr=subprocess.STDOUT, cwd=ROOT)
        out = p.stdout.decode()
        viol = [l for l in out.split('\n') if l.startswith('VIOLATION') or l.startswith('  obligation')]
        hit = p.returncode == 1 and any(re.search(m.get('expect', '.'), l) for l in viol)
        print('%-6s %-4s %-9s %5.1fs  %s  %s' % (m['id'], m['property'], 'KILLED' if hit else ('ALARM-OTHER' if p.returncode == 1 else 'MISSED'), time.time() - t, m['what'][:70], (viol[1].strip()[:110] if len(viol) > 1 else '')))
        res.append((m['id'], 'killed' if hit else ('other' if p.returncode == 1 else 'missed')))
    finally:
        shutil.rmtree(d, ignore_errors=True)
k = sum(1 for _, r in res if r == 'killed')
print('selftest: %d/%d mutants killed' % (k, len(res)))
sys.exit(0 if k == len(res) else 1)
